// Command vcheck is the single driver of all checks: `vcheck <Cnn> quick|thorough`.
// It forks worker processes (`vcheck -worker ...`), merges their reports, prints the verdict and writes evidence.
package main

import (
	"bufio"
	"bytes"
	"encoding/json"
	"fmt"
	"os"
	"os/exec"
	"path/filepath"
	"strconv"
	"strings"
	"sync"
	"syscall"
	"time"

	"verif/internal/checks"
	"verif/internal/kern"
	"verif/internal/rt"
)

func seed() int64 {
	s := os.Getenv("VERIF_SEED")
	if s == "" {
		return 1
	}
	n, err := strconv.ParseInt(s, 10, 64)
	if err != nil {
		return 1
	}
	return n
}

func main() {
	if len(os.Args) >= 6 && os.Args[1] == "-worker" {
		worker(os.Args[2], os.Args[3], os.Args[4], os.Args[5])
		return
	}
	if len(os.Args) < 3 {
		fmt.Fprintln(os.Stderr, "usage: vcheck <Cnn> quick|thorough")
		os.Exit(2)
	}
	prop, tier := os.Args[1], os.Args[2]
	if tier != "quick" && tier != "thorough" {
		fmt.Fprintln(os.Stderr, "tier must be quick or thorough")
		os.Exit(2)
	}
	ck := checks.All[prop]
	if ck == nil {
		fmt.Fprintln(os.Stderr, "unknown property", prop)
		os.Exit(2)
	}
	os.Exit(drive(ck, tier))
}

func worker(prop, tier, shardS, nS string) {
	ck := checks.All[prop]
	shard, _ := strconv.Atoi(shardS)
	n, _ := strconv.Atoi(nS)
	c := &rt.Ctx{Prop: prop, Tier: tier, Seed: seed(), Shard: shard, NShards: n, Rep: rt.NewReport(), Find: rt.LoadFindings(),
		Scratch: os.Getenv("VERIF_SCRATCH")}
	if ck.Chroot {
		if err := kern.EnterChroot(c.Scratch); err != nil {
			fmt.Println("CHECK-ERROR chroot:", err)
			os.Exit(3)
		}
	}
	ck.Run(c)
	b, err := json.Marshal(c.Rep)
	if err != nil {
		fmt.Println("CHECK-ERROR cannot encode report:", err)
		os.Exit(3)
	}
	w := bufio.NewWriter(os.Stdout)
	w.WriteString("REPORT ")
	w.Write(b)
	w.WriteString("\n")
	w.Flush()
}

func drive(ck *checks.Check, tier string) int {
	start := time.Now()
	find := rt.LoadFindings()
	n := ck.Shards(tier)
	total := rt.NewReport()
	self, _ := os.Executable()
	var mu sync.Mutex
	var wg sync.WaitGroup
	checkErr := ""
	if ck.Pre != nil {
		ck.Pre(tier)
	}
	for i := 0; i < n+ck.OSShards; i++ {
		wg.Add(1)
		go func(i int) {
			defer wg.Done()
			// the shards after the first n run the part of the check that needs the avfs_setostype build
			bin, si, sn, part := self, i, n, ""
			if i >= n {
				bin, si, sn, part = filepath.Join(filepath.Dir(self), "vcheck-os"), i-n, ck.OSShards, "os"
			}
			scratch := ""
			if ck.Chroot {
				scratch = fmt.Sprintf("/dev/shm/verif.%d.%s.%d", os.Getpid(), ck.Prop, i)
				_ = os.RemoveAll(scratch)
				if err := os.MkdirAll(scratch, 0o755); err != nil {
					mu.Lock()
					checkErr = err.Error()
					mu.Unlock()
					return
				}
				defer os.RemoveAll(scratch)
			}
			cmd := exec.Command(bin, "-worker", ck.Prop, tier, strconv.Itoa(si), strconv.Itoa(sn))
			cmd.Env = append(os.Environ(), "VERIF_SCRATCH="+scratch, "GOTRACEBACK=all", "VERIF_PART="+part)
			if ck.Env != nil {
				cmd.Env = append(cmd.Env, ck.Env(i)...)
			}
			var out, errb bytes.Buffer
			cmd.Stdout = &out
			cmd.Stderr = &errb
			cmd.SysProcAttr = &syscall.SysProcAttr{Setpgid: true}
			to := 3600
			if ck.Timeout != nil {
				to = ck.Timeout(tier)
			}
			if err := cmd.Start(); err != nil {
				mu.Lock()
				checkErr = err.Error()
				mu.Unlock()
				return
			}
			done := make(chan error, 1)
			go func() { done <- cmd.Wait() }()
			var werr error
			timedOut := false
			select {
			case werr = <-done:
			case <-time.After(time.Duration(to) * time.Second):
				timedOut = true
				_ = cmd.Process.Signal(syscall.SIGQUIT)
				select {
				case werr = <-done:
				case <-time.After(10 * time.Second):
					_ = syscall.Kill(-cmd.Process.Pid, syscall.SIGKILL)
					werr = <-done
				}
			}
			mu.Lock()
			defer mu.Unlock()
			var rep *rt.Report
			lastLines := []string{}
			for _, line := range strings.Split(out.String(), "\n") {
				if strings.HasPrefix(line, "REPORT ") {
					r := rt.NewReport()
					if err := json.Unmarshal([]byte(line[7:]), r); err == nil {
						rep = r
					}
					continue
				}
				if line != "" {
					lastLines = append(lastLines, line)
					if len(lastLines) > 6 {
						lastLines = lastLines[1:]
					}
				}
			}
			if rep != nil && werr == nil {
				total.Merge(rep)
				return
			}
			// abnormal end
			stderr := errb.String()
			dump := filepath.Join(rt.VerifDir, ".build", fmt.Sprintf("crash-%s-%d.txt", ck.Prop, i))
			_ = os.MkdirAll(filepath.Dir(dump), 0o755)
			_ = os.WriteFile(dump, []byte(strings.Join(lastLines, "\n")+"\n-----\n"+stderr), 0o644)
			// the goroutine that crashed is the first one of the dump ("[running]"): it decides the attribution
			crashed := stderr
			if j := strings.Index(crashed, "\ngoroutine "); j >= 0 {
				crashed = crashed[j+1:]
				if k := strings.Index(crashed, "\n\n"); k >= 0 {
					crashed = crashed[:k]
				}
			}
			inAvfs := strings.Contains(crashed, "github.com/avfs/avfs")
			fatal := strings.Contains(stderr, "fatal error:") || strings.Contains(stderr, "panic:")
			switch {
			case timedOut:
				total.Inconclusive = append(total.Inconclusive, fmt.Sprintf("worker %d exceeded its %ds watchdog (dump: %s; last: %v)", i, to, dump, lastLines))
			case fatal && inAvfs:
				first := stderr
				if j := strings.Index(first, "\n\n"); j > 0 {
					first = first[:j]
				}
				total.Violate("worker-crash|"+firstLine(stderr), "worker process died with a Go fatal error / panic inside avfs code: "+firstLine(stderr),
					map[string]any{"last_logged": lastLines, "stderr_head": head(stderr, 4000), "dump": dump})
			default:
				checkErr = fmt.Sprintf("worker %d ended abnormally (%v); dump: %s; last: %v", i, werr, dump, lastLines)
			}
		}(i)
	}
	wg.Wait()
	if ck.Post != nil {
		ck.Post(tier, total)
	}
	if checkErr != "" {
		fmt.Printf("CHECK-ERROR property=%s %s\n", ck.Prop, checkErr)
		// still write evidence so that the failure is visible, but exit 2
		rt.Finish(ck.Prop, tier, seed(), total, find, ck.Meta(tier), start)
		return 2
	}
	return rt.Finish(ck.Prop, tier, seed(), total, find, ck.Meta(tier), start)
}

func firstLine(s string) string {
	for _, l := range strings.Split(s, "\n") {
		if strings.HasPrefix(l, "fatal error:") || strings.HasPrefix(l, "panic:") {
			return l
		}
	}
	return head(s, 120)
}

func head(s string, n int) string {
	if len(s) > n {
		return s[:n]
	}
	return s
}
