module verif

go 1.22

require (
	github.com/anishathalye/porcupine v1.3.0
	github.com/avfs/avfs v0.0.0
)

replace github.com/avfs/avfs => /repo
