package checks

import (
	"fmt"
	"sort"
	"strings"
	"syscall"

	"github.com/avfs/avfs"
	"github.com/avfs/avfs/vfs/memfs"
	"github.com/avfs/avfs/vfs/orefafs"

	"verif/internal/fsx"
	"verif/internal/gen"
	"verif/internal/hook"
	"verif/internal/kern"
	"verif/internal/rt"
)

// ---------- shared lockstep machinery (C01, C04, C14 reuse it) ----------

// lockstep drives an emulated file system and the kernel (in the chroot) with identical calls.
type lockstep struct {
	c         *rt.Ctx
	fsType    string // MemFS | OrefaFS
	emu       *fsx.Env
	osx       *fsx.Env
	emuRaw    any // the concrete emulated file system (for VerifCheck)
	hist      []fsx.Op
	mutated   bool
	silent    bool // do not report (redundant BFS prefix work of shards > 0)
	keepMtime int64
	resyncs   int64
	symSize   bool
}

func newEmu(fsType string) (avfs.VFS, any) {
	switch fsType {
	case "OrefaFS":
		v := orefafs.NewWithOptions(&orefafs.Options{User: avfs.NewUser("root", 0, 0)})
		return v, v
	default:
		v := memfs.New()
		return v, v
	}
}

func (l *lockstep) reset(umask uint32) error {
	if l.emu != nil {
		l.emu.CloseAll()
	}
	if l.osx != nil {
		l.osx.CloseAll()
	}
	if err := kern.Reset(umask); err != nil {
		return err
	}
	v, raw := newEmu(l.fsType)
	l.emu = fsx.NewEnv(v)
	l.emuRaw = raw
	l.osx = fsx.NewEnv(kern.FS())
	l.hist = l.hist[:0]
	l.mutated = false
	return nil
}

// normMtime keeps only the sentinel modification time that the call just executed has set (Chtimes templates use a
// sentinel unique to the call): modification times as such are outside the property's comparison domain, but the set of
// paths carrying the sentinel right after a successful Chtimes shows which object the call acted on (follow / no-follow).
func normMtime(s *fsx.Snapshot, keep int64) {
	for i := range s.Recs {
		if keep == 0 || s.Recs[i].Mtime != keep {
			s.Recs[i].Mtime = 0
		}
	}
}

func (l *lockstep) snaps() (*fsx.Snapshot, *fsx.Snapshot) {
	o := fsx.SnapOpts{Mtime: true, SymSize: l.symSize}
	a := fsx.Snap(l.emu.FS, "/", o)
	b := fsx.Snap(l.osx.FS, "/", o)
	normMtime(a, l.keepMtime)
	normMtime(b, l.keepMtime)
	return a, b
}

// diffKind summarises how two snapshots differ, as a sorted set of tokens.
func diffKind(a, b *fsx.Snapshot) string {
	ma := map[string]fsx.Rec{}
	mb := map[string]fsx.Rec{}
	for _, r := range a.Recs {
		ma[r.Path] = r
	}
	for _, r := range b.Recs {
		mb[r.Path] = r
	}
	set := map[string]bool{}
	for p, ra := range ma {
		rb, ok := mb[p]
		if !ok {
			set["emu-extra:"+ra.Type] = true
			continue
		}
		var f []string
		if ra.Type != rb.Type {
			f = append(f, "type")
		} else {
			if ra.Mode != rb.Mode {
				f = append(f, "mode")
			}
			if ra.Uid != rb.Uid || ra.Gid != rb.Gid {
				f = append(f, "owner")
			}
			if ra.Size != rb.Size {
				f = append(f, "size")
			}
			if ra.Sum != rb.Sum {
				f = append(f, "content")
			}
			if ra.Nlink != rb.Nlink {
				f = append(f, "nlink")
			}
			if ra.Class != rb.Class {
				f = append(f, "linkclass")
			}
			if ra.Target != rb.Target {
				f = append(f, "target")
			}
			if ra.Mtime != rb.Mtime {
				f = append(f, "mtime")
			}
		}
		if len(f) > 0 {
			set["differs:"+ra.Type+":"+strings.Join(f, "+")] = true
		}
	}
	for p, rb := range mb {
		if _, ok := ma[p]; !ok {
			set["os-extra:"+rb.Type] = true
		}
	}
	var out []string
	for k := range set {
		out = append(out, k)
	}
	sort.Strings(out)
	return strings.Join(out, ",")
}

type stepResult struct {
	sig       string // signature of the case (agreeing or not)
	disagree  bool
	treesDiff bool
	what      string
	fatal     bool // emulated instance unusable (panic/deadlock): history must end
	emu, os   fsx.Res
}

func isMutating(k string) bool {
	switch k {
	case "Stat", "Lstat", "ReadDir", "ReadFile", "Readlink", "EvalSymlinks", "Getwd", "WalkDir", "Glob", "Abs":
		return false
	}
	return true
}

// step executes one call on both sides and compares outcome and trees.
func (l *lockstep) step(o fsx.Op) stepResult {
	cls := fsx.OpClass(l.osx.FS, o)
	l.keepMtime = 0
	zeroTimes := o.K == "Chtimes" && (o.N == -1 || o.N == -2) // -2: only the access time is given
	var mtE, mtO int64
	if zeroTimes {
		// the zero time asks os.Chtimes to leave the times alone: whether the modification time moves is compared
		mtE, mtO = mtimeOf(l.emu.FS, o.P), mtimeOf(l.osx.FS, o.P)
	} else if o.K == "Chtimes" {
		// (also when only the modification time is given, -3: its fixed sentinel would not be unique in the history, and
		// a directory keeps or loses an old sentinel depending on who updates directory times, which is not compared)
		o.N = int64(len(l.hist) + 10) // sentinel unique to this call
		l.keepMtime = fsx.SentinelTime(o.N).UnixNano()
	}
	re := l.emu.Exec(o)
	ro := l.osx.Exec(o)
	l.hist = append(l.hist, o)
	sr := stepResult{emu: re, os: ro}
	base := l.fsType + "|" + cls
	if zeroTimes && re.Err == "ok" && ro.Err == "ok" {
		if ce, co := mtimeOf(l.emu.FS, o.P) != mtE, mtimeOf(l.osx.FS, o.P) != mtO; ce != co {
			sr.disagree = true
			sr.sig = fmt.Sprintf("%s|ok|zero-times-mtime-changed=%v|os=%v", base, ce, co)
			sr.what = fmt.Sprintf("%s: %s with the zero time: the modification time changed=%v on %s but changed=%v on Linux", l.fsType, o, ce, l.fsType, co)
			return sr
		}
	}
	if re.Err == "panic" || re.Err == "deadlock" {
		sr.fatal = true
	}
	// temp names are random on both sides: compare shape, then remove on both sides
	if (o.K == "CreateTemp" || o.K == "MkdirTemp") && re.Err == "ok" && ro.Err == "ok" {
		ne, no := l.emu.Temps[len(l.emu.Temps)-1], l.osx.Temps[len(l.osx.Temps)-1]
		ie, e1 := l.emu.FS.Lstat(ne)
		io, e2 := l.osx.FS.Lstat(no)
		if e1 != nil || e2 != nil || fsx.InfoStr(l.emu.FS, ie) != fsx.InfoStr(l.osx.FS, io) {
			re.Val += " info=" + fmt.Sprint(e1) + safeInfo(l.emu.FS, ie, e1)
			ro.Val += " info=" + fmt.Sprint(e2) + safeInfo(l.osx.FS, io, e2)
		}
		if o.K == "CreateTemp" {
			_ = l.emu.Files[o.H].Close()
			_ = l.osx.Files[o.H].Close()
			delete(l.emu.Files, o.H)
			delete(l.osx.Files, o.H)
		}
		_ = l.emu.FS.Remove(ne)
		_ = l.osx.FS.Remove(no)
		sr.emu, sr.os = re, ro
	}
	if !re.Same(ro) {
		sr.disagree = true
		if re.Err != ro.Err {
			sr.sig = fmt.Sprintf("%s|emu=%s|os=%s", base, re.Err, ro.Err)
			sr.what = fmt.Sprintf("%s: %s returns %s on %s but %s through OsFS on Linux", l.fsType, o, re, l.fsType, ro)
		} else {
			sr.sig = fmt.Sprintf("%s|%s|value-differs", base, re.Err)
			sr.what = fmt.Sprintf("%s: %s returns %q but OsFS returns %q", l.fsType, o, re.Val, ro.Val)
		}
	} else {
		sr.sig = fmt.Sprintf("%s|%s", base, re.Err)
	}
	if sr.fatal {
		sr.treesDiff = true
		return sr
	}
	a, b := l.snaps()
	if strings.Join(a.Lines(true), "\n") != strings.Join(b.Lines(true), "\n") {
		sr.treesDiff = true
		if !sr.disagree {
			sr.disagree = true
			sr.sig = fmt.Sprintf("%s|%s|tree:%s", base, re.Err, diffKind(a, b))
			sr.what = fmt.Sprintf("%s: after %s (%s on both sides) the trees differ: %v", l.fsType, o, re.Err, fsx.Diff(a, b, true, 6))
		}
	} else {
		// same trees: WalkDir order and cwd must agree as well
		wa, ea := fsx.WalkList(l.emu.FS, "/", 1000)
		wb, eb := fsx.WalkList(l.osx.FS, "/", 1000)
		if fsx.ErrClass(ea) != fsx.ErrClass(eb) || strings.Join(wa, " ") != strings.Join(wb, " ") {
			if !sr.disagree {
				sr.disagree = true
				sr.sig = fmt.Sprintf("%s|%s|walkdir-differs", base, re.Err)
				sr.what = fmt.Sprintf("%s: after %s WalkDir(/) visits %v (err %v) but on Linux %v (err %v)", l.fsType, o, wa, ea, wb, eb)
			}
		}
		ca, _ := l.emu.FS.Getwd()
		cb, cerr := l.osx.FS.Getwd()
		if (ca != cb || cerr != nil) && (o.K == "Remove" || o.K == "RemoveAll" || o.K == "Rename") {
			// The working directory (or an ancestor) was removed or renamed. The kernel's cwd is an inode, the emulated one
			// a path string: what relative paths mean from here on is outside the property. Both sides go back to "/".
			_ = l.emu.FS.Chdir("/")
			_ = l.osx.FS.Chdir("/")
			l.resyncs++
			ca, cb = "/", "/"
		}
		if ca != cb && !sr.disagree {
			sr.disagree = true
			sr.treesDiff = true // the views differ: relative paths no longer mean the same
			sr.sig = fmt.Sprintf("%s|%s|cwd-differs", base, re.Err)
			sr.what = fmt.Sprintf("%s: after %s Getwd is %q but %q on Linux", l.fsType, o, ca, cb)
		}
	}
	if p := a.InvariantProblems(); len(p) > 0 && !sr.disagree {
		// reported by C05; here it only ends the history if the oracle side is healthy
		_ = p
	}
	if re.Err == "ok" && isMutating(o.K) {
		l.mutated = true
	}
	return sr
}

func safeInfo(v avfs.VFS, fi interface{}, err error) string {
	if err != nil || fi == nil {
		return ""
	}
	return ""
}

// replayHist re-executes a history from a fresh state; it returns the result of the last step and whether every
// earlier step agreed (outcome and tree).
func (l *lockstep) replayHist(umask uint32, h []fsx.Op) (stepResult, bool) {
	if err := l.reset(umask); err != nil {
		return stepResult{}, false
	}
	for i, o := range h {
		sr := l.step(o)
		if i == len(h)-1 {
			return sr, true
		}
		if sr.disagree || sr.fatal {
			return sr, false
		}
	}
	return stepResult{}, false
}

// shrink removes calls from a failing history as long as the last call still produces the same signature and every
// earlier call agrees with the oracle.
func (l *lockstep) shrink(umask uint32, h []fsx.Op, sig string) []fsx.Op {
	cur := append([]fsx.Op(nil), h...)
	budget := 120
	for i := len(cur) - 2; i >= 0 && budget > 0; i-- {
		budget--
		cand := append(append([]fsx.Op(nil), cur[:i]...), cur[i+1:]...)
		sr, ok := l.replayHist(umask, cand)
		if ok && sr.disagree && sr.sig == sig {
			cur = cand
		}
	}
	return cur
}

func opStrings(h []fsx.Op) []string {
	out := make([]string, len(h))
	for i, o := range h {
		out[i] = o.String()
	}
	return out
}

// report records one step result; on a disagreement it shrinks the history into a witness first.
func (l *lockstep) report(umask uint32, sr stepResult, shrinkIt bool) (suppressed bool) {
	if l.silent {
		return false
	}
	c := l.c
	if !sr.disagree {
		c.Rep.Case(sr.sig, l.mutated)
		return false
	}
	c.Rep.Case(sr.sig, l.mutated)
	c.Rep.Count("disagreements", 1)
	if id := c.Find.Match(c.Prop, sr.sig); id != "" {
		c.Rep.Known[id]++
		if _, ok := c.Rep.KnownSample[id]; !ok {
			c.Rep.KnownSample[id] = sr.sig
		}
		if _, ok := c.Rep.KnownSigs[sr.sig]; ok || len(c.Rep.KnownSigs) < 2000 {
			c.Rep.KnownSigs[sr.sig]++
		}
		return true
	}
	h := append([]fsx.Op(nil), l.hist...)
	if shrinkIt && len(h) > 1 && len(c.Rep.Violations) < 60 {
		seen := false
		for _, v := range c.Rep.Violations {
			if v.Sig == sr.sig {
				seen = true
			}
		}
		if !seen {
			h = l.shrink(umask, h, sr.sig)
		}
	}
	c.Rep.Violate(sr.sig, sr.what, map[string]any{"fs": l.fsType, "umask": umask, "history": h, "history_text": opStrings(h),
		"emu": sr.emu, "os": sr.os})
	return false
}

func mtimeOf(v avfs.VFS, p string) int64 {
	fi, err := v.Stat(p)
	if err != nil {
		return -1
	}
	return fi.ModTime().UnixNano()
}

// ---------- C01 ----------

func c01Cfg(fsType string) gen.Cfg {
	g := gen.Cfg{Root: "/w", Names: []string{"a", "ab", "c"}, Depth: 3, Links: true, Owners: true, Temps: true, Chdir: true, NoChange: true,
		Specials: true, AvoidRootOps: true}
	if fsType == "MemFS" {
		g.Symlinks = true
	}
	return g
}

func c01Random(c *rt.Ctx, fsType string, nHist, length int) {
	l := &lockstep{c: c, fsType: fsType, symSize: true}
	umasks := []uint32{0o022, 0o022, 0o002, 0o077, 0o027, 0}
	for h := 0; h < nHist; h++ {
		if h%c.NShards != c.Shard {
			continue
		}
		r := c.Rand(fmt.Sprintf("rand-%s-%d", fsType, h))
		umask := umasks[r.IntN(len(umasks))]
		if err := l.reset(umask); err != nil {
			c.Rep.Inconclusive = append(c.Rep.Inconclusive, "kernel reset failed: "+err.Error())
			return
		}
		g := gen.New(c01Cfg(fsType), r)
		// every history starts by creating the work directory on both sides
		sr := l.step(fsx.Op{K: "Mkdir", P: "/w", Perm: 0o755})
		l.report(umask, sr, false)
		if sr.disagree {
			continue
		}
		c.Rep.Count("histories", 1)
		for i := 0; i < length; i++ {
			_, b := l.snaps()
			cwd, _ := l.osx.FS.Getwd()
			g.Observe(b.Recs, cwd)
			o := g.Next()
			sr := l.step(o)
			suppressed := l.report(umask, sr, true)
			if sr.disagree && suppressed && !sr.treesDiff && !sr.fatal {
				// a recorded finding that left both trees equal (different errno only): the history goes on
				c.Rep.Count("continued_past_known_finding", 1)
				continue
			}
			if sr.disagree {
				// trees differ (or shrink has replayed): the lockstep state is no longer that of this history
				c.Rep.Count("truncated_histories", 1)
				c.Rep.Count("steps_before_truncation", int64(i))
				break
			}
			if i == length-1 {
				c.Rep.Count("complete_histories", 1)
				c.Rep.Sample(map[string]any{"fs": fsType, "kind": "random history (last 6 calls)", "calls": opStrings(l.hist[len(l.hist)-6:])}, 3)
			}
		}
	}
}

// c01Calls enumerates the concrete calls of the bounded-exhaustive universe.
func c01Calls(fsType string) []fsx.Op {
	paths := []string{"/", "/w", "/w/a", "/w/b", "/w/a/a", "/w/a/b", "/w/b/a"}
	var ops []fsx.Op
	for _, p := range paths {
		for _, fl := range gen.OpenFlagSets() {
			o := fsx.Op{K: "OpenWriteClose", P: p, Flag: fl, Perm: 0o644}
			if fl&3 != 0 {
				o.Data = "xy"
			}
			ops = append(ops, o)
		}
		ops = append(ops, fsx.Op{K: "WriteFile", P: p, Data: "wf", Perm: 0o600})
		ops = append(ops, fsx.Op{K: "Mkdir", P: p, Perm: 0o750}, fsx.Op{K: "MkdirAll", P: p, Perm: 0o755})
		if p != "/" {
			ops = append(ops, fsx.Op{K: "Remove", P: p}, fsx.Op{K: "RemoveAll", P: p})
		}
		for _, n := range []int64{-1, 0, 1, 5} {
			ops = append(ops, fsx.Op{K: "Truncate", P: p, N: n})
		}
		ops = append(ops, fsx.Op{K: "Chmod", P: p, Perm: 0o700}, fsx.Op{K: "Chmod", P: p, Perm: 0o1777})
		ops = append(ops, fsx.Op{K: "Chown", P: p, N: 1000, M: -1}, fsx.Op{K: "Lchown", P: p, N: -1, M: 1000})
		ops = append(ops, fsx.Op{K: "Chtimes", P: p, N: 1}, fsx.Op{K: "Chdir", P: p})
		for _, k := range []string{"Stat", "Lstat", "ReadDir", "ReadFile"} {
			ops = append(ops, fsx.Op{K: k, P: p})
		}
		if fsType == "MemFS" {
			ops = append(ops, fsx.Op{K: "Readlink", P: p}, fsx.Op{K: "EvalSymlinks", P: p})
			for _, t := range []string{"a", "../b", "/w/a", "zz", "."} {
				ops = append(ops, fsx.Op{K: "Symlink", P: t, Q: p})
			}
		}
		for _, q := range paths {
			if p == "/" || q == "/" {
				continue
			}
			ops = append(ops, fsx.Op{K: "Rename", P: p, Q: q}, fsx.Op{K: "Link", P: p, Q: q})
		}
		ops = append(ops, fsx.Op{K: "CreateTemp", P: p, Q: "x*y", H: 8}, fsx.Op{K: "MkdirTemp", P: p, Q: "", H: 8})
	}
	ops = append(ops, fsx.Op{K: "CreateTemp", P: "", Q: "a/b", H: 8}, fsx.Op{K: "MkdirTemp", P: "", Q: "t*", H: 8}, fsx.Op{K: "Getwd"})
	// relative spellings (cwd is "/" unless a Chdir happened earlier in the history)
	ops = append(ops, fsx.Op{K: "Mkdir", P: "w/c", Perm: 0o755}, fsx.Op{K: "Stat", P: "w/a"}, fsx.Op{K: "Remove", P: "a"},
		fsx.Op{K: "WriteFile", P: "b", Data: "r", Perm: 0o644}, fsx.Op{K: "Rename", P: "a", Q: "../b"})
	return ops
}

type bfsState struct {
	path []fsx.Op
}

// c01BFS explores every history of length <= depth over the small universe, up to state equivalence.
func c01BFS(c *rt.Ctx, fsType string, depth int, roots [][]fsx.Op) {
	l := &lockstep{c: c, fsType: fsType, symSize: true}
	calls := c01Calls(fsType)
	const umask = 0o022
	seen := map[string]bool{}
	level := []bfsState{}
	for _, r := range roots {
		level = append(level, bfsState{path: r})
	}
	for d := 0; d < depth; d++ {
		last := d == depth-1
		var next []bfsState
		for si, st := range level {
			mine := !last || si%c.NShards == c.Shard
			if !mine {
				continue
			}
			l.silent = !last && c.Shard != 0
			for _, call := range calls {
				if _, ok := l.replayHist(umask, st.path); !ok && len(st.path) > 0 {
					// prefix no longer agrees (cannot happen: it agreed when recorded)
					c.Rep.Count("bfs_prefix_mismatch", 1)
					continue
				}
				if len(st.path) == 0 {
					if err := l.reset(umask); err != nil {
						c.Rep.Inconclusive = append(c.Rep.Inconclusive, "kernel reset failed: "+err.Error())
						return
					}
				}
				sr := l.step(call)
				l.report(umask, sr, false)
				if !l.silent {
					c.Rep.Count("bfs_cases", 1)
				}
				if sr.disagree || last {
					continue
				}
				_, b := l.snaps()
				cwd, _ := l.osx.FS.Getwd()
				key := b.Hash() + "|" + cwd
				if !seen[key] {
					seen[key] = true
					np := append(append([]fsx.Op(nil), st.path...), call)
					next = append(next, bfsState{path: np})
				}
			}
		}
		if !last && c.Shard == 0 {
			c.Rep.Count(fmt.Sprintf("bfs_%s_states_depth_%d", fsType, d+1), int64(len(next)))
		}
		level = next
	}
	l.silent = false
}

func init() {
	register(&Check{
		Prop:   "C01",
		Chroot: true,
		Shards: shards(12, 16),
		Meta: func(tier string) rt.Meta {
			return rt.Meta{Level: "exploration", MinEvals: 2000, MinDistinct: 50,
				Rule: "differential lockstep against the Linux kernel (tmpfs, chroot) through osfs.OsFS: (i) breadth-first over distinct states of a 2-name depth-2 universe, every concrete call of ~45 templates tried from every state up to the depth bound; (ii) random template-driven histories with aliasing bias. A case = one compared call (outcome class + values + full tree + WalkDir order + cwd after it). Link budget (MemFS): the queries on a directory, a file and a link that is not followed reached through chains of 39/40/41 and 254/255/256 links. Signature = fs | call kind[flags] | pre-state class of each operand | outcome(s). Non-trivial = the call was issued after at least one successful mutation of the tree (its outcome depends on history); distinct_nontrivial counts distinct such signatures.",
				Assumptions: []string{"tmpfs under chroot stands for 'a real Linux directory'", "error wrapper fields (Op, Path) and directory sizes/link counts, inode numbers, atime and non-sentinel mtimes are not compared",
					"the running process is root with full capabilities (administrator)"}}
		},
		Timeout: func(tier string) int {
			if tier == "thorough" {
				return 3000
			}
			return 600
		},
		Run: func(c *rt.Ctx) {
			hook.Sequential()
			syscall.Umask(0o022)
			for _, fsType := range []string{"MemFS", "OrefaFS"} {
				w := []fsx.Op{{K: "Mkdir", P: "/w", Perm: 0o755}}
				roots := [][]fsx.Op{{}, w,
					append(append([]fsx.Op{}, w...), fsx.Op{K: "Mkdir", P: "/w/a", Perm: 0o755}, fsx.Op{K: "WriteFile", P: "/w/b", Data: "hello", Perm: 0o644}),
					append(append([]fsx.Op{}, w...), fsx.Op{K: "WriteFile", P: "/w/a", Data: "0123456789", Perm: 0o644}, fsx.Op{K: "Link", P: "/w/a", Q: "/w/b"}),
					append(append([]fsx.Op{}, w...), fsx.Op{K: "Mkdir", P: "/w/a", Perm: 0o755}, fsx.Op{K: "Mkdir", P: "/w/a/a", Perm: 0o755}, fsx.Op{K: "WriteFile", P: "/w/a/b", Data: "q", Perm: 0o600}, fsx.Op{K: "Mkdir", P: "/w/b", Perm: 0o700}),
				}
				if fsType == "MemFS" {
					roots = append(roots,
						append(append([]fsx.Op{}, w...), fsx.Op{K: "Mkdir", P: "/w/a", Perm: 0o755}, fsx.Op{K: "Symlink", P: "a", Q: "/w/b"}, fsx.Op{K: "WriteFile", P: "/w/a/a", Data: "t", Perm: 0o644}),
						append(append([]fsx.Op{}, w...), fsx.Op{K: "Symlink", P: "zz", Q: "/w/a"}, fsx.Op{K: "Symlink", P: "/w/b", Q: "/w/b"}))
				}
				c01BFS(c, fsType, c.Pick(1, 2), roots)
				if fsType == "MemFS" && c.Shard == 0 {
					c01Budget(c)
				}
				c01Random(c, fsType, c.Pick(360, 6000), c.Pick(200, 300))
			}
		},
	})
}

// c01Budget: the read-only queries at the limits of link resolution (40 links followed by the kernel, 255 by
// EvalSymlinks): a directory reached through a chain of n links, a file reached through another one, and a link that is
// not followed behind the first chain.
func c01Budget(c *rt.Ctx) {
	l := &lockstep{c: c, fsType: "MemFS", symSize: true}
	for _, n := range []int{39, 40, 41, 254, 255, 256} {
		g := []fsx.Op{{K: "Mkdir", P: "/w", Perm: 0o755}, {K: "Mkdir", P: "/w/d", Perm: 0o755}, {K: "WriteFile", P: "/w/d/f", Data: "x", Perm: 0o644}, {K: "Symlink", P: "f", Q: "/w/d/lnk"}}
		for i := n - 1; i >= 0; i-- {
			t, u := fmt.Sprintf("k%d", i+1), fmt.Sprintf("/w/d/m%d", i+1)
			if i == n-1 {
				t, u = "d", "/w/d/f"
			}
			g = append(g, fsx.Op{K: "Symlink", P: t, Q: fmt.Sprintf("/w/k%d", i)}, fsx.Op{K: "Symlink", P: u, Q: fmt.Sprintf("/w/d/m%d", i)})
		}
		if !c04Build(l, g) {
			continue
		}
		for _, o := range []fsx.Op{{K: "Stat", P: "/w/k0"}, {K: "ReadDir", P: "/w/k0"}, {K: "EvalSymlinks", P: "/w/k0"}, {K: "Lstat", P: "/w/k0/lnk"}, {K: "Readlink", P: "/w/k0/lnk"}, {K: "Stat", P: "/w/k0/f"},
			{K: "Stat", P: "/w/d/m0"}, {K: "ReadFile", P: "/w/d/m0"}, {K: "EvalSymlinks", P: "/w/d/m0"}, {K: "Lstat", P: "/w/d/m0"}, {K: "Open", P: "/w/d/m0", H: 3}, {K: "Glob", P: "/w/k0/*"}} {
			sr := l.stepQuery(o)
			sr.sig = fmt.Sprintf("links=%d|", n) + sr.sig
			l.report(0o022, sr, false)
		}
		l.emu.CloseAll()
		l.osx.CloseAll()
	}
}

// stepQuery executes a read-only query on both sides and compares the outcomes only (the caller knows that queries do not
// change the tree; a final snapshot comparison by the caller would catch it if they did).
func (l *lockstep) stepQuery(o fsx.Op) stepResult {
	cls := fsx.OpClass(l.osx.FS, o)
	re := l.emu.Exec(o)
	ro := l.osx.Exec(o)
	sr := stepResult{emu: re, os: ro}
	base := l.fsType + "|" + cls
	sr.fatal = re.Err == "panic" || re.Err == "deadlock"
	switch {
	case re.Err != ro.Err:
		sr.disagree = true
		sr.sig = fmt.Sprintf("%s|emu=%s|os=%s", base, re.Err, ro.Err)
		sr.what = fmt.Sprintf("%s: %s returns %s on %s but %s through OsFS on Linux", l.fsType, o, re, l.fsType, ro)
	case re.Val != ro.Val:
		sr.disagree = true
		sr.sig = fmt.Sprintf("%s|%s|value-differs", base, re.Err)
		sr.what = fmt.Sprintf("%s: %s returns %q but OsFS returns %q", l.fsType, o, re.Val, ro.Val)
	default:
		sr.sig = fmt.Sprintf("%s|%s", base, re.Err)
	}
	if sr.disagree {
		l.hist = append(l.hist, o)
	}
	return sr
}
