package checks

import (
	"fmt"
	"math/rand/v2"
	"strings"
	"syscall"
	"time"

	"verif/internal/fsx"
	"verif/internal/gen"
	"verif/internal/hook"
	"verif/internal/kern"
	"verif/internal/rt"
)

type c02Handle struct {
	open  bool
	flags int
	name  string
}

func cmpClass(v, size int64) string {
	switch {
	case v < 0:
		return "neg"
	case v == 0:
		return "0"
	case v < size:
		return "inside"
	case v == size:
		return "=size"
	default:
		return ">size"
	}
}

func lenClass(n, pos, size int64) string {
	switch {
	case n == 0:
		return "len0"
	case pos+n <= size:
		return "short"
	default:
		return "crossEOF"
	}
}

// c02Class is the call-shape part of a handle-operation signature (DESIGN.md Appendix C).
func c02Class(o fsx.Op, hd c02Handle, pos, size int64) string {
	mode := "nohandle"
	if hd.flags >= 0 {
		mode = fsx.FlagString(hd.flags &^ (syscall.O_CREAT | syscall.O_EXCL | syscall.O_TRUNC))
		if !hd.open {
			mode += ",closed"
		}
	}
	s := o.K + " h=" + mode + " pos:" + cmpClass(pos, size)
	switch o.K {
	case "F.Read":
		s += " " + lenClass(o.N, pos, size)
	case "F.ReadAt":
		s += " off:" + cmpClass(o.M, size) + " " + lenClass(o.N, o.M, size)
	case "F.WriteAt", "F.Truncate":
		s += " arg:" + cmpClass(o.N, size)
	case "F.Seek":
		s += fmt.Sprintf(" whence%d off:%s", o.M, cmpClass(o.N, size))
	}
	return s
}

// c02Sentinel is the old modification time given to every name before a step.
var c02Sentinel = time.Unix(1_000_000_000, 0)

func c02Scenario(c *rt.Ctx, fsType string, r *rand.Rand, prog []fsx.Op, exhaustiveFlags int) {
	l := &lockstep{c: c, fsType: fsType, symSize: true}
	if err := l.reset(0o022); err != nil {
		c.Rep.Inconclusive = append(c.Rep.Inconclusive, "kernel reset failed: "+err.Error())
		return
	}
	size0 := 0
	if r != nil {
		size0 = []int{0, 1, 7, 16, 40}[r.IntN(5)]
	} else {
		size0 = 6
	}
	data := make([]byte, size0)
	for i := range data {
		data[i] = byte('A' + i%26)
	}
	setup := []fsx.Op{{K: "Mkdir", P: "/w", Perm: 0o755}, {K: "WriteFile", P: "/w/f", Data: string(data), Perm: 0o644}}
	if r != nil && r.IntN(2) == 0 {
		setup = append(setup, fsx.Op{K: "Link", P: "/w/f", Q: "/w/g"})
	}
	for _, o := range setup {
		a, b := l.emu.Exec(o), l.osx.Exec(o)
		if !a.Same(b) {
			return // C01's business
		}
	}
	hs := map[int]*c02Handle{0: {flags: -1}, 1: {flags: -1}, 2: {flags: -1}}
	names := []string{"/w/f", "/w/g", "/w/h"}
	var hist []string
	replay := func() any {
		return map[string]any{"fs": fsType, "initial_size": size0, "setup": opStrings(setup), "history": hist}
	}
	nsteps := 60
	if prog != nil {
		nsteps = len(prog)
	}
	g := gen.New(gen.Cfg{Root: "/w", Names: []string{"f"}, Depth: 1}, rand.New(rand.NewPCG(1, 1)))
	if r != nil {
		g = gen.New(gen.Cfg{Root: "/w", Names: []string{"f"}, Depth: 1}, r)
	}
	for i := 0; i < nsteps; i++ {
		var o fsx.Op
		if prog != nil {
			o = prog[i]
		} else {
			switch x := r.IntN(100); {
			case x < 16:
				fl := gen.OpenFlagSets()[r.IntN(36)]
				o = fsx.Op{K: "OpenFile", P: names[r.IntN(3)], Flag: fl, Perm: 0o644, H: r.IntN(3)}
			case x < 28:
				n := names[r.IntN(3)]
				switch r.IntN(6) {
				case 0:
					o = fsx.Op{K: "Truncate", P: n, N: []int64{0, 1, 5, 17, 40}[r.IntN(5)]}
				case 1:
					o = fsx.Op{K: "Rename", P: n, Q: names[r.IntN(3)]}
				case 2:
					o = fsx.Op{K: "Link", P: n, Q: names[r.IntN(3)]}
				case 3:
					o = fsx.Op{K: "Remove", P: n}
				case 4:
					o = fsx.Op{K: "Chmod", P: n, Perm: []uint32{0o644, 0o600, 0o400, 0o666, 0o4755, 0o2644, 0o1600, 0o6711}[r.IntN(8)]}
				default:
					o = fsx.Op{K: "WriteFile", P: n, Data: g.Data(), Perm: 0o644}
				}
			default:
				o = g.FileOp()
				for o.K == "OpenFile" || o.K == "F.ReadDir" || o.K == "F.Readdirnames" || o.K == "F.Chdir" || o.K == "F.Name" {
					o = g.FileOp()
				}
			}
		}
		// pre-state class from the oracle side
		cls := o.K
		if strings.HasPrefix(o.K, "F.") {
			hd := hs[o.H]
			pos, size := int64(0), int64(0)
			if f := l.osx.Files[o.H]; f != nil && hd.open {
				pos, _ = f.Seek(0, 1)
				if fi, err := f.Stat(); err == nil {
					size = fi.Size()
				}
			}
			cls = c02Class(o, *hd, pos, size)
		} else if o.K == "OpenFile" {
			cls = "OpenFile[" + fsx.FlagString(o.Flag) + "] p=" + fsx.PathClass(l.osx.FS, o.P)
		} else {
			cls = fsx.OpClass(l.osx.FS, o)
		}
		if o.K == "F.WriteAt" && o.Data == "" && hs[o.H].flags >= 0 && !hs[o.H].open {
			// os.File.WriteAt with an empty buffer returns (0, nil) even on a closed file (its loop never reaches the system
			// call); the property says that any call on a closed handle fails with a closed-file error. Not compared.
			c.Rep.Count("empty_writeat_on_closed_handle_not_compared", 1)
			continue
		}
		// modification times: both sides get an old sentinel time on every name before the step; afterwards a name
		// either still carries it or not (which calls update the time, not what the clock said)
		sameSizeTruncate := false
		for _, n := range names {
			_ = l.emu.FS.Chtimes(n, c02Sentinel, c02Sentinel)
			_ = l.osx.FS.Chtimes(n, c02Sentinel, c02Sentinel)
			if fi, err := l.osx.FS.Lstat(n); err == nil && o.K == "Truncate" && o.P == n && fi.Size() == o.N {
				// truncate(2) to the size the file already has: POSIX marks the time for update only "if the file size is
				// changed"; tmpfs does it anyway when the file has pages allocated, ext4 does not. Not compared.
				sameSizeTruncate = true
			}
		}
		a := l.emu.Exec(o)
		b := l.osx.Exec(o)
		hist = append(hist, o.String()+" -> "+a.String())
		sig := fmt.Sprintf("%s|%s|%s", fsType, cls, a.Err)
		c.Rep.Case(sig, i > 0)
		if a.Err == "nohandle" && b.Err == "nohandle" {
			continue
		}
		if !a.Same(b) {
			sig = fmt.Sprintf("%s|%s|emu=%s|os=%s", fsType, cls, a.Err, b.Err)
			if a.Err == b.Err {
				sig = fmt.Sprintf("%s|%s|%s|value-differs", fsType, cls, a.Err)
			}
			if !c.Disagree(sig, fmt.Sprintf("%s: %s returns %s but os.File on Linux returns %s", fsType, o, a, b), replay()) || true {
				return
			}
		}
		if fatalRes(a) {
			return
		}
		// bookkeeping of the handles
		switch o.K {
		case "OpenFile":
			if b.Err == "ok" {
				hs[o.H] = &c02Handle{open: true, flags: o.Flag, name: o.P}
			}
		case "F.Close":
			if hs[o.H].flags >= 0 {
				hs[o.H].open = false
			}
		}
		// observation sweep: offset and Stat of every open handle, content and attributes of every link
		for h, hd := range hs {
			if hd.flags < 0 || !hd.open {
				continue
			}
			pa := l.emu.Exec(fsx.Op{K: "F.Seek", H: h, N: 0, M: 1})
			pb := l.osx.Exec(fsx.Op{K: "F.Seek", H: h, N: 0, M: 1})
			sa := l.emu.Exec(fsx.Op{K: "F.Stat", H: h})
			sb := l.osx.Exec(fsx.Op{K: "F.Stat", H: h})
			if !pa.Same(pb) || !sa.Same(sb) {
				what := "offset"
				if pa.Same(pb) {
					what = "stat"
				}
				c.Disagree(fmt.Sprintf("%s|%s|%s|handle-%s-differs", fsType, cls, a.Err, what), fmt.Sprintf("%s: after %s handle h%d (%s) has offset %s / stat %s but %s / %s with os.File", fsType, o, h, fsx.FlagString(hd.flags), pa, sa, pb, sb), replay())
				return
			}
		}
		sa, sb := l.snaps()
		if sa.String() != sb.String() {
			c.Disagree(fmt.Sprintf("%s|%s|%s|tree:%s", fsType, cls, a.Err, diffKind(sa, sb)), fmt.Sprintf("%s: after %s the files differ from Linux: %v", fsType, o, fsx.Diff(sa, sb, false, 6)), replay())
			return
		}
		if sameSizeTruncate {
			c.Rep.Count("mtime_of_same_size_truncate_not_compared", 1)
		}
		for _, n := range names {
			fa, ea := l.emu.FS.Lstat(n)
			fb, eb := l.osx.FS.Lstat(n)
			if ea != nil || eb != nil || sameSizeTruncate {
				continue
			}
			ta, tb := !fa.ModTime().Equal(c02Sentinel), !fb.ModTime().Equal(c02Sentinel)
			c.Rep.Case(fmt.Sprintf("%s|%s|%s|mtime-updated=%v", fsType, cls, a.Err, tb), i > 0)
			if ta != tb {
				c.Disagree(fmt.Sprintf("%s|%s|%s|mtime-updated:emu=%v,os=%v", fsType, cls, a.Err, ta, tb), fmt.Sprintf("%s: after %s the modification time of %s was updated: %v; with os.File on Linux: %v", fsType, o, n, ta, tb), replay())
				return
			}
		}
	}
	c.Rep.Count("complete_scenarios", 1)
	if len(hist) >= 5 {
		c.Rep.Sample(map[string]any{"fs": fsType, "last_steps": hist[len(hist)-5:]}, 3)
	}
}

// c02Dir checks the directory-handle guarantee of the property against the statement itself (os gives no order):
// every batch has at most n entries (n > 0), the union over batches is the directory content exactly once, then io.EOF.
func c02Dir(c *rt.Ctx, fsType string, r *rand.Rand, onlyReturns bool) {
	v := newBase(fsType)
	e := fsx.NewEnv(v)
	_ = v.Mkdir("/d", 0o755)
	n := r.IntN(8)
	// one directory in sixteen holds hundreds of entries, read in batches of up to 1000
	big := r.IntN(16) == 0
	if big {
		n = 200 + r.IntN(1200)
	}
	want := map[string]bool{}
	for i := 0; i < n; i++ {
		name := fmt.Sprintf("e%d", i)
		if r.IntN(2) == 0 {
			_ = v.Mkdir("/d/"+name, 0o755)
		} else {
			_ = v.WriteFile("/d/"+name, []byte("x"), 0o644)
		}
		want[name] = true
	}
	res := e.Exec(fsx.Op{K: "OpenFile", P: "/d", H: 0})
	if res.Err != "ok" {
		return
	}
	seen := map[string]int{}
	var hist []string
	mixed := r.IntN(3) == 0
	// in one scenario out of four the directory changes between the batches (entries removed and created): what is
	// delivered is then unspecified, but every batch call still returns, with names that existed at some point
	changing := r.IntN(4) == 0 || onlyReturns
	kind := []string{"F.ReadDir", "F.Readdirnames"}[r.IntN(2)]
	eofs := 0
	maxSteps := 40
	entriesCls := fmt.Sprint(n)
	if big {
		maxSteps = 400
		entriesCls = ">=200"
	}
	for step := 0; step < maxSteps && eofs < 2; step++ {
		k := kind
		if mixed {
			k = []string{"F.ReadDir", "F.Readdirnames"}[r.IntN(2)]
		}
		bn := []int64{1, 2, 3, 8}[r.IntN(4)]
		if big {
			bn = []int64{7, 64, 100, 256, 1000}[r.IntN(5)]
		}
		rr := e.Exec(fsx.Op{K: k, H: 0, N: bn})
		hist = append(hist, fmt.Sprintf("%s(%d) -> %s", k, bn, rr))
		if changing {
			c.Rep.Case(fmt.Sprintf("%s|dir-handle-changing|entries=%s|%s", fsType, entriesCls, rr.Err), true)
			if fatalRes(rr) {
				c.Disagree(fmt.Sprintf("%s|dir-handle-changing|%s", fsType, rr.Err), fmt.Sprintf("%s: on a directory handle whose directory shrinks and grows between the batches, %s does not return normally: %s", fsType, hist[len(hist)-1], rr.Raw), map[string]any{"fs": fsType, "history": hist})
				return
			}
			for _, nm := range strings.Fields(strings.Trim(rr.Val, "[]")) {
				if nm = strings.SplitN(nm, ":", 2)[0]; !want[nm] && !onlyReturns {
					c.Disagree(fsType+"|dir-handle-changing|unknown-entry", fmt.Sprintf("%s: %s delivers %q which never was in the directory", fsType, hist[len(hist)-1], nm), map[string]any{"fs": fsType, "history": hist})
					return
				}
			}
			if rr.Err == "eof" {
				eofs++
			}
			for j := 0; j < 1+r.IntN(3); j++ {
				name := fmt.Sprintf("e%d", r.IntN(n+2))
				if r.IntN(3) != 0 {
					_ = v.RemoveAll("/d/" + name)
					hist = append(hist, "  RemoveAll(/d/"+name+")")
				} else {
					_ = v.WriteFile("/d/"+name, []byte("y"), 0o644)
					want[name] = true
					hist = append(hist, "  WriteFile(/d/"+name+")")
				}
			}
			continue
		}
		if fatalRes(rr) {
			return
		}
		sig := fmt.Sprintf("%s|dir-handle|entries=%s|mixed=%v|%s", fsType, entriesCls, mixed, rr.Err)
		c.Rep.Case(sig, n > 0)
		names := strings.Fields(strings.Trim(rr.Val, "[]"))
		if rr.Err == "eof" {
			eofs++
			if len(names) != 0 {
				c.Disagree(fsType+"|dir-handle|entries-with-eof", fmt.Sprintf("%s: %s returns entries together with io.EOF", fsType, hist[len(hist)-1]), map[string]any{"fs": fsType, "history": hist})
				return
			}
			if eofs == 1 {
				for w := range want {
					if seen[w] != 1 {
						c.Disagree(fmt.Sprintf("%s|dir-handle|mixed=%v|entry-delivered-%d-times", fsType, mixed, min3(seen[w], 2)), fmt.Sprintf("%s: a directory of %d entries read in batches: entry %s was delivered %d times before io.EOF", fsType, n, w, seen[w]), map[string]any{"fs": fsType, "history": hist})
						return
					}
				}
				seen = map[string]int{} // a second pass starts after EOF
				// the directory changes between the passes: whatever a handle does after io.EOF (stay at the end as
				// os.File does, or start over), a batch asked for from now on never delivers a name that is gone
				for w := range want {
					if r.IntN(2) == 0 {
						_ = v.RemoveAll("/d/" + w)
						delete(want, w)
						hist = append(hist, "  RemoveAll(/d/"+w+")")
						break
					}
				}
				_ = v.WriteFile("/d/zz-new", []byte("y"), 0o644)
				want["zz-new"] = true
				hist = append(hist, "  WriteFile(/d/zz-new)")
			} else {
				for w, k := range seen {
					if k > 1 {
						c.Disagree(fmt.Sprintf("%s|dir-handle|mixed=%v|second-pass-entry-delivered-twice", fsType, mixed), fmt.Sprintf("%s: batches read after io.EOF delivered entry %s %d times before the next io.EOF", fsType, w, k), map[string]any{"fs": fsType, "history": hist})
						return
					}
				}
			}
			continue
		}
		if rr.Err != "ok" {
			c.Disagree(fsType+"|dir-handle|error:"+rr.Err, fmt.Sprintf("%s: %s on a directory handle", fsType, hist[len(hist)-1]), map[string]any{"fs": fsType, "history": hist})
			return
		}
		if len(names) == 0 || int64(len(names)) > bn {
			c.Disagree(fsType+"|dir-handle|batch-size", fmt.Sprintf("%s: %s returns %d entries (want 1..%d, or io.EOF)", fsType, hist[len(hist)-1], len(names), bn), map[string]any{"fs": fsType, "history": hist})
			return
		}
		for _, nm := range names {
			nm = strings.SplitN(nm, ":", 2)[0]
			seen[nm]++
			if !want[nm] {
				c.Disagree(fsType+"|dir-handle|unknown-entry", fmt.Sprintf("%s: %s delivers %q which is not in the directory", fsType, hist[len(hist)-1], nm), map[string]any{"fs": fsType, "history": hist})
				return
			}
		}
	}
}

// c02Chdir compares Chdir on handles with os.File.Chdir: handles opened under relative, unclean and symbolic-link names
// while the current directory moves, then Getwd and relative lookups after every step.
func c02Chdir(c *rt.Ctx, fsType string, r *rand.Rand) {
	l := &lockstep{c: c, fsType: fsType, symSize: true}
	if err := l.reset(0o022); err != nil {
		c.Rep.Inconclusive = append(c.Rep.Inconclusive, "kernel reset failed: "+err.Error())
		return
	}
	setup := []fsx.Op{{K: "Mkdir", P: "/w", Perm: 0o755}, {K: "Mkdir", P: "/w/d", Perm: 0o755}, {K: "Mkdir", P: "/w/d/e", Perm: 0o755},
		{K: "WriteFile", P: "/w/f", Data: "F", Perm: 0o644}, {K: "WriteFile", P: "/w/d/g", Data: "G", Perm: 0o644}}
	dirs := []string{"/", "/w", "/w/d", "/w/d/e", "d", "e", "..", "../..", ".", "w"}
	opens := []string{".", "..", "d", "e", "/w/d", "d/e", "../d", "f", "/w/f", "./d/", "/w//d/.", "w", "/w/d/e/..", "g"}
	if fsType == "MemFS" {
		setup = append(setup, fsx.Op{K: "Symlink", P: "d", Q: "/w/ld"}, fsx.Op{K: "Symlink", P: "/w/d/e", Q: "/w/d/le"})
		dirs = append(dirs, "ld", "/w/ld", "le")
		opens = append(opens, "ld", "/w/ld", "le", "ld/e", "/w/d/le/..")
	}
	for _, o := range setup {
		a, b := l.emu.Exec(o), l.osx.Exec(o)
		if !a.Same(b) {
			return // C01's business
		}
	}
	var hist []string
	replay := func() any { return map[string]any{"fs": fsType, "setup": opStrings(setup), "history": hist} }
	for i := 0; i < 24; i++ {
		var o fsx.Op
		switch x := r.IntN(10); {
		case x < 2:
			o = fsx.Op{K: "Chdir", P: dirs[r.IntN(len(dirs))]}
		case x < 5:
			o = fsx.Op{K: "OpenFile", P: opens[r.IntN(len(opens))], H: r.IntN(3)}
		case x < 8:
			o = fsx.Op{K: "F.Chdir", H: r.IntN(3)}
		case x < 9:
			o = fsx.Op{K: "F.Close", H: r.IntN(3)}
		default:
			o = fsx.Op{K: "Stat", P: []string{"g", "e", "f", "d", "."}[r.IntN(5)]}
		}
		a, b := l.emu.Exec(o), l.osx.Exec(o)
		hist = append(hist, o.String()+" -> "+a.String())
		c.Rep.Case(fmt.Sprintf("%s|handle-chdir|%s|%s", fsType, o.K, a.Err), i > 0)
		if a.Err == "nohandle" && b.Err == "nohandle" {
			continue
		}
		if fatalRes(a) {
			return
		}
		if !a.Same(b) {
			c.Disagree(fmt.Sprintf("%s|handle-chdir|%s|emu=%s|os=%s", fsType, o.K, a.Err, b.Err), fmt.Sprintf("%s: %s returns %s but %s on Linux", fsType, o, a, b), replay())
			return
		}
		wa, wb := l.emu.Exec(fsx.Op{K: "Getwd"}), l.osx.Exec(fsx.Op{K: "Getwd"})
		if !wa.Same(wb) {
			c.Disagree(fmt.Sprintf("%s|handle-chdir|%s|%s|getwd-differs", fsType, o.K, a.Err), fmt.Sprintf("%s: after %s the current directory is %s but %s on Linux", fsType, o, wa, wb), replay())
			return
		}
	}
	c.Rep.Count("complete_handle_chdir_scenarios", 1)
}

// c02Big: the same lockstep on a file of several MiB: writes of 1 byte to 3 MiB at offsets around the 32 KiB and
// 1 MiB marks, truncations up and down across them, reads of up to 1 MiB, through an O_RDWR (sometimes O_APPEND)
// handle and a second read-only handle. Contents are compared by digest after every step.
func c02Big(c *rt.Ctx, fsType string, r *rand.Rand) {
	sizes := []int{1, 4095, 4096, 32768, 32769, 65537, 1 << 20, 1<<20 + 1, 3 << 20}
	offs := []int64{0, 1, 4096, 32768, 1<<20 - 1, 1 << 20, 1<<20 + 1, 2 << 20, 2260991, 3<<20 + 5, 5 << 20}
	fl := syscall.O_RDWR | syscall.O_CREAT
	if r.IntN(4) == 0 {
		fl |= syscall.O_APPEND
	}
	prog := []fsx.Op{{K: "OpenFile", P: "/w/f", Flag: fl, Perm: 0o644, H: 0}, {K: "OpenFile", P: "/w/f", Flag: syscall.O_RDONLY, H: 1}}
	blob := func(i, n int) string {
		unit := fmt.Sprintf("<%d:%d>", i, n)
		return strings.Repeat(unit, n/len(unit)+1)[:n]
	}
	for i := 0; i < 22; i++ {
		n := sizes[r.IntN(len(sizes))]
		off := offs[r.IntN(len(offs))]
		switch r.IntN(9) {
		case 0, 1:
			prog = append(prog, fsx.Op{K: "F.Write", H: 0, Data: blob(i, n)})
		case 2, 3:
			prog = append(prog, fsx.Op{K: "F.WriteAt", H: 0, Data: blob(i, n), N: off})
		case 4:
			prog = append(prog, fsx.Op{K: "F.Truncate", H: 0, N: off})
		case 5:
			prog = append(prog, fsx.Op{K: "F.Seek", H: 0, N: off, M: 0})
		case 6:
			prog = append(prog, fsx.Op{K: "F.ReadAt", H: 1, N: int64(min3(n, 1<<20)), M: off})
		case 7:
			prog = append(prog, fsx.Op{K: "F.Read", H: 1, N: int64(min3(n, 1<<20))})
		default:
			prog = append(prog, fsx.Op{K: "Truncate", P: "/w/f", N: off})
		}
	}
	c.Rep.Count("big_file_scenarios", 1)
	c02Scenario(c, fsType, nil, prog, fl)
}

// c02Owner: handles held by an ordinary user while the mode of the file changes under them. What a descriptor may
// do is decided when it is opened: a handle opened for writing keeps writing and truncating after the file lost its
// write bits, one opened for reading never writes. Every step is issued by a MemFS view of that user and by the
// kernel under the same fsuid/fsgid, and compared.
func c02Owner(c *rt.Ctx, r *rand.Rand) {
	if err := kern.Reset(0); err != nil {
		c.Rep.Inconclusive = append(c.Rep.Inconclusive, "kernel reset failed: "+err.Error())
		return
	}
	m, users := newMemWithUsers()
	_ = m.SetUMask(0)
	syscall.Umask(0)
	defer syscall.Umask(0o022)
	root, osr := fsx.NewEnv(m), fsx.NewEnv(kern.FS())
	uid, gid := c03Users[1][0], c03Users[1][1]
	for _, o := range []fsx.Op{{K: "Mkdir", P: "/w", Perm: 0o777}, {K: "Chmod", P: "/w", Perm: 0o777}, {K: "WriteFile", P: "/w/f", Data: "0123456789abcdefghij", Perm: 0o644},
		{K: "Chown", P: "/w/f", N: int64(uid), M: int64(gid)}, {K: "Chmod", P: "/w/f", Perm: []uint32{0o644, 0o600, 0o664, 0o200, 0o400}[r.IntN(5)]}} {
		if a, b := root.Exec(o), osr.Exec(o); !a.Same(b) {
			return // C01's business
		}
	}
	v, err := m.Sub("/")
	if err != nil {
		return
	}
	_ = v.SetUser(users[1])
	_ = v.SetUMask(0)
	emu := fsx.NewEnv(v)
	defer emu.CloseAll()
	defer osr.CloseAll()
	var hist []string
	steps := []fsx.Op{{K: "OpenFile", P: "/w/f", Flag: []int{syscall.O_RDWR, syscall.O_WRONLY, syscall.O_RDONLY, syscall.O_WRONLY | syscall.O_APPEND}[r.IntN(4)], H: 0}, {K: "OpenFile", P: "/w/f", Flag: syscall.O_RDONLY, H: 1}}
	pool := []fsx.Op{{K: "Chmod", P: "/w/f", Perm: 0o444}, {K: "Chmod", P: "/w/f", Perm: 0}, {K: "Chmod", P: "/w/f", Perm: 0o200}, {K: "Chmod", P: "/w/f", Perm: 0o644}, {K: "F.Chmod", H: 0, Perm: 0o400}, {K: "F.Chmod", H: 1, Perm: 0o600},
		{K: "F.Truncate", H: 0, N: 5}, {K: "F.Truncate", H: 0, N: 30}, {K: "F.Truncate", H: 1, N: 2}, {K: "F.Write", H: 0, Data: "WW"}, {K: "F.Write", H: 1, Data: "RR"}, {K: "F.WriteAt", H: 0, Data: "A", N: 3},
		{K: "F.Read", H: 0, N: 4}, {K: "F.Read", H: 1, N: 4}, {K: "F.ReadAt", H: 1, N: 4, M: 1}, {K: "F.Stat", H: 0}, {K: "F.Seek", H: 0, N: 0, M: 0}, {K: "Truncate", P: "/w/f", N: 7}, {K: "ReadFile", P: "/w/f"},
		{K: "OpenFile", P: "/w/f", Flag: syscall.O_RDWR, H: 2}, {K: "OpenFile", P: "/w/f", Flag: syscall.O_WRONLY | syscall.O_TRUNC, H: 2}, {K: "F.Chown", H: 0, N: -1, M: int64(gid)}}
	for i := 0; i < 14; i++ {
		steps = append(steps, pool[r.IntN(len(pool))])
	}
	for i, o := range steps {
		var a, b fsx.Res
		a = emu.Exec(o)
		if err := kern.AsUser(uid, gid, func() { b = osr.Exec(o) }); err != nil {
			c.Rep.Inconclusive = append(c.Rep.Inconclusive, "cannot switch fsuid: "+err.Error())
			return
		}
		hist = append(hist, o.String()+" -> "+a.String())
		cls := o.K
		if o.K == "OpenFile" {
			cls += "[" + fsx.FlagString(o.Flag) + "]"
		}
		c.Rep.Case(fmt.Sprintf("MemFS|owner-handles|%s|%s", cls, a.Err), i > 0)
		if fatalRes(a) {
			return
		}
		if a.Err == "nohandle" && b.Err == "nohandle" {
			continue
		}
		if !a.Same(b) {
			c.Disagree(fmt.Sprintf("MemFS|owner-handles|%s|emu=%s|os=%s", cls, a.Err, b.Err), fmt.Sprintf("MemFS, user %d:%d owning the file: %s returns %s but %s with os.File on Linux under the same ids (history %v)", uid, gid, o, a, b, hist), map[string]any{"history": hist})
			return
		}
		sa, sb := fsx.Snap(m, "/w", fsx.SnapOpts{}), fsx.Snap(kern.FS(), "/w", fsx.SnapOpts{})
		if sa.String() != sb.String() {
			c.Disagree(fmt.Sprintf("MemFS|owner-handles|%s|%s|tree-differs", cls, a.Err), fmt.Sprintf("MemFS, user %d:%d owning the file: after %v the file differs from Linux: %v", uid, gid, hist, fsx.Diff(sa, sb, false, 4)), map[string]any{"history": hist})
			return
		}
	}
	c.Rep.Count("owner_handle_scenarios", 1)
}

func init() {
	register(&Check{
		Prop:   "C02",
		Chroot: true,
		Shards: shards(12, 16),
		Meta: func(tier string) rt.Meta {
			return rt.Meta{Level: "exploration", MinEvals: 5000, MinDistinct: 100,
				Rule:        "differential lockstep against *os.File on tmpfs (chroot): scenarios of one file (0-40 bytes), optionally a second hard link, up to 3 handles opened with independently drawn flag sets (36 sets) and 60 steps of Read/ReadAt/Write/WriteAt/WriteString/Seek/Truncate/Stat/Sync/Chmod/Chown/Close/re-open and path-level Truncate/Rename/Link/Remove/Chmod/WriteFile of the file; offsets, sizes and lengths straddle the current size. After EVERY step the offset and Stat of every open handle and the content/size/mode/owner/nlink of every link are compared. Plus bounded-exhaustive: every sequence of 2 (quick) / 3 (thorough) operations of a reduced set for each flag set. Directory handles are judged against the statement itself; in one scenario out of four the directory shrinks and grows between the batches (every batch call must still return, with names that existed). Chdir on handles: handles opened under relative, unclean and symbolic-link names while the current directory moves (24 steps), Getwd compared after every step. Modes given to path and handle Chmod include the setuid/setgid/sticky bits; every buffer given to a write is overwritten by the harness afterwards (aliasing); scenarios on files of several MiB (writes of 1 byte to 3 MiB around the 32 KiB and 1 MiB marks, truncations across them, reads of up to 1 MiB); one directory in sixteen holds 200-1400 entries read in batches of up to 1000. Modification times: every name gets an old sentinel time before each step, and whether a step updated it is compared (not what the clock said; truncate(2) to the same size excepted). Handles held by an ordinary user while the mode and owner of the file change under them, every step also issued by the kernel under the same fsuid/fsgid. After the first io.EOF of a directory handle one entry is removed and one created: batches read from then on never deliver a name that is gone, nor a name twice before the next io.EOF (whether the handle stays at the end or starts over is not judged). Signature = fs | op | handle mode | offset-vs-size class | argument classes | outcome; non-trivial = not the first step.",
				Assumptions: []string{"Seek whence 3/4 (SEEK_DATA/HOLE) are never generated; error strings, Fd and mtimes are not compared", "WriteAt with an empty buffer on a closed handle is not compared (os.File returns nil there, the property demands a closed-file error)"}}
		},
		Timeout: func(tier string) int {
			if tier == "thorough" {
				return 3000
			}
			return 600
		},
		Run: func(c *rt.Ctx) {
			hook.Sequential()
			kern.LockThread() // the owner-handle scenarios switch the fsuid of this thread
			syscall.Umask(0o022)
			_ = kern.InChroot()
			for _, fsType := range []string{"MemFS", "OrefaFS"} {
				n := c.Pick(3000, 30000)
				for h := 0; h < n; h++ {
					if h%c.NShards != c.Shard {
						continue
					}
					r := c.Rand(fmt.Sprintf("c02-%s-%d", fsType, h))
					c02Scenario(c, fsType, r, nil, -1)
					c02Dir(c, fsType, r, false)
					c02Chdir(c, fsType, r)
					if fsType == "MemFS" && h%4 == 0 {
						c02Owner(c, c.Rand(fmt.Sprintf("c02-owner-%d", h)))
					}
				}
				// files of several MiB
				for h := 0; h < c.Pick(24, 480); h++ {
					if h%c.NShards == c.Shard {
						c02Big(c, fsType, c.Rand(fmt.Sprintf("c02-big-%s-%d", fsType, h)))
					}
				}
				// bounded-exhaustive short sequences for every flag set
				red := []fsx.Op{{K: "F.Read", N: 4}, {K: "F.Write", Data: "xyz"}, {K: "F.Seek", N: 9, M: 0}, {K: "F.Seek", N: -1, M: 2}, {K: "F.Truncate", N: 2}, {K: "F.Truncate", N: 9},
					{K: "F.ReadAt", N: 3, M: 7}, {K: "F.WriteAt", Data: "Q", N: 8}, {K: "F.Close"}, {K: "F.Stat"}}
				depth := c.Pick(2, 3)
				idx := 0
				var rec func(prefix []fsx.Op)
				for _, fl := range gen.OpenFlagSets() {
					fl := fl
					rec = func(prefix []fsx.Op) {
						if len(prefix) == depth {
							idx++
							if idx%c.NShards != c.Shard {
								return
							}
							prog := append([]fsx.Op{{K: "OpenFile", P: "/w/f", Flag: fl, Perm: 0o644, H: 0}}, prefix...)
							c02Scenario(c, fsType, nil, prog, fl)
							c.Rep.Count("exhaustive_sequences", 1)
							return
						}
						for _, o := range red {
							rec(append(append([]fsx.Op{}, prefix...), o))
						}
					}
					rec(nil)
				}
			}
		},
	})
}
