package checks

import (
	"fmt"
	"io/fs"
	"math/rand/v2"
	"os"
	"syscall"

	"github.com/avfs/avfs"

	"verif/internal/fsx"
	"verif/internal/hook"
	"verif/internal/kern"
	"verif/internal/rt"
)

// c03Node is one node of a configuration.
type c03Node struct {
	path string
	kind string // d, f, - (missing)
	uid  int
	gid  int
	mode uint32
}

type c03Cfg struct {
	nodes []c03Node // d1, d2, x, e1, y
	actor int       // index in users: 0 root, 1 u1, 2 u2, 3 u3
	umask uint32
}

// ids of the users created by newMemWithUsers: u1 1001:1001 (g1), u2 1002:1002 (g2), u3 1003:1001 (g1), u4 1004:0 (root's group)
var c03Users = [][2]int{{0, 0}, {1001, 1001}, {1002, 1002}, {1003, 1001}, {1004, 0}}
var c03Owners = [][2]int{{0, 0}, {1001, 1001}, {1002, 1002}, {1001, 1002}, {1002, 1001}, {1003, 1001}}

func actorClass(actor int, n c03Node) string {
	u := c03Users[actor]
	switch {
	case u[0] == 0:
		return "admin"
	case n.kind == "-":
		return "n/a"
	case n.uid == u[0]:
		return "owner"
	case n.gid == u[1]:
		return "group"
	}
	return "other"
}

func classBits(actor int, n c03Node) string {
	if n.kind == "-" {
		return "-"
	}
	sh := uint(0)
	switch actorClass(actor, n) {
	case "owner":
		sh = 6
	case "group":
		sh = 3
	case "admin":
		return "*"
	}
	b := (n.mode >> sh) & 7
	return string([]byte{"-r"[b>>2&1], "-w"[b>>1&1], "-x"[b&1]})
}

const (
	c03D1 = "/w/d1"
	c03D2 = "/w/d1/d2"
	c03X  = "/w/d1/d2/x"
	c03E1 = "/w/e1"
	c03Y  = "/w/e1/y"
)

func c03Calls() []fsx.Op {
	return []fsx.Op{
		{K: "Stat", P: c03X}, {K: "Lstat", P: c03X}, {K: "ReadFile", P: c03X}, {K: "ReadDir", P: c03X}, {K: "ReadDir", P: c03D2},
		{K: "OpenWriteClose", P: c03X, Flag: syscall.O_RDONLY}, {K: "OpenWriteClose", P: c03X, Flag: syscall.O_WRONLY, Data: "w"}, {K: "OpenWriteClose", P: c03X, Flag: syscall.O_RDWR, Data: "w"},
		{K: "OpenWriteClose", P: c03X, Flag: syscall.O_WRONLY | syscall.O_CREAT, Perm: 0o666, Data: "c"}, {K: "OpenWriteClose", P: c03X, Flag: syscall.O_RDONLY | syscall.O_TRUNC},
		{K: "OpenWriteClose", P: c03X, Flag: syscall.O_WRONLY | syscall.O_CREAT | syscall.O_EXCL, Perm: 0o640, Data: "e"}, {K: "OpenWriteClose", P: c03X, Flag: syscall.O_WRONLY | syscall.O_APPEND, Data: "a"},
		{K: "WriteFile", P: c03X, Data: "wf", Perm: 0o664}, {K: "Create", P: c03X, H: 9},
		{K: "Mkdir", P: c03X, Perm: 0o777}, {K: "MkdirAll", P: c03X + "/n1/n2", Perm: 0o775}, {K: "Mkdir", P: c03X + "/sub", Perm: 0o755},
		{K: "Remove", P: c03X}, {K: "RemoveAll", P: c03X}, {K: "RemoveAll", P: c03D2},
		{K: "Rename", P: c03X, Q: c03Y}, {K: "Rename", P: c03X, Q: c03D2 + "/z"}, {K: "Rename", P: c03Y, Q: c03X},
		{K: "Link", P: c03X, Q: c03Y}, {K: "Link", P: c03Y, Q: c03D2 + "/z"}, {K: "Symlink", P: "x", Q: c03D2 + "/ln"},
		{K: "Truncate", P: c03X, N: 1}, {K: "Chmod", P: c03X, Perm: 0o600}, {K: "Chmod", P: c03D2, Perm: 0o700},
		{K: "Chown", P: c03X, N: -1, M: -1}, {K: "Chown", P: c03X, N: 1001, M: 1001}, {K: "Chown", P: c03X, N: -1, M: 1002}, {K: "Lchown", P: c03X, N: 1002, M: -1},
		{K: "Chtimes", P: c03X, N: 3}, {K: "Chtimes", P: c03X, N: -1}, {K: "Chtimes", P: c03X, N: -2}, {K: "Chtimes", P: c03X, N: -3}, {K: "Chdir", P: c03D2}, {K: "Chdir", P: c03X}, {K: "Readlink", P: c03X}, {K: "EvalSymlinks", P: c03X},
		// enumerations meeting directories that can be stat'ed but not opened, or opened but not searched
		{K: "Glob", P: "/w/*/*"}, {K: "Glob", P: "/w/*/d2/*"}, {K: "Glob", P: "/w/d1/*/*"}, {K: "WalkDir", P: "/w"},
		// creation modes carrying the sticky, setuid and setgid bits: "mode perm &^ umask" is about all twelve bits
		// (mkdir(2) keeps only the sticky bit of the three, so that is the one asked of it; nothing is written to the
		// files, a write by an ordinary user clears the setuid bit)
		{K: "Mkdir", P: c03X, Perm: 0o1777}, {K: "MkdirAll", P: c03X + "/n1/n2", Perm: 0o1755},
		{K: "OpenWriteClose", P: c03X, Flag: syscall.O_WRONLY | syscall.O_CREAT | syscall.O_EXCL, Perm: 0o4755}, {K: "OpenWriteClose", P: c03X, Flag: syscall.O_RDWR | syscall.O_CREAT, Perm: 0o3666},
		// through the links of e1 into the other branch: the refusal, and its errno, is that of the kernel (MkdirAll on a
		// link it cannot follow answers "exists", whatever stops it behind the link)
		{K: "MkdirAll", P: c03E1 + "/lx", Perm: 0o755}, {K: "MkdirAll", P: c03E1 + "/ld/n1", Perm: 0o755}, {K: "MkdirAll", P: c03E1 + "/lx/n1", Perm: 0o755}, {K: "Stat", P: c03E1 + "/ld"}, {K: "ReadDir", P: c03E1 + "/ld"}, {K: "ReadFile", P: c03E1 + "/lx"},
		// moves of directories: to another parent (the moved directory itself has to be writable), below itself (refused
		// as such before any permission of the moved directory is looked at), onto an existing directory
		{K: "Rename", P: c03D2, Q: c03E1 + "/m"}, {K: "Rename", P: c03D1, Q: c03D2 + "/into"}, {K: "Rename", P: c03D2, Q: c03D2 + "/self"}, {K: "Rename", P: c03D2, Q: c03E1}, {K: "Rename", P: c03E1, Q: c03D2 + "/e"}, {K: "Rename", P: c03D2, Q: c03D1 + "/m2"},
	}
}

type c03Run struct {
	c     *rt.Ctx
	l     *lockstep
	views []avfs.VFS
}

// build creates the configuration on both sides as root and returns the emulated view of the acting user.
func (k *c03Run) build(cfg c03Cfg) bool {
	l := k.l
	if l.emu != nil {
		l.emu.CloseAll()
	}
	if l.osx != nil {
		l.osx.CloseAll()
	}
	if err := kern.Reset(0); err != nil {
		k.c.Rep.Inconclusive = append(k.c.Rep.Inconclusive, "kernel reset failed: "+err.Error())
		return false
	}
	m, users := newMemWithUsers()
	_ = m.SetUMask(0)
	root := fsx.NewEnv(m)
	osr := fsx.NewEnv(kern.FS())
	setup := []fsx.Op{{K: "Mkdir", P: "/w", Perm: 0o777}, {K: "Chmod", P: "/w", Perm: 0o777}}
	for _, n := range cfg.nodes {
		switch n.kind {
		case "d":
			setup = append(setup, fsx.Op{K: "Mkdir", P: n.path, Perm: 0o777})
		case "f":
			setup = append(setup, fsx.Op{K: "WriteFile", P: n.path, Data: "0123456789", Perm: 0o666})
		}
	}
	if cfg.nodes[3].kind == "d" {
		// two symbolic links in e1 leading across to the other branch: what is behind them may be out of the acting
		// user's reach while the links themselves are not
		setup = append(setup, fsx.Op{K: "Symlink", P: c03X, Q: c03E1 + "/lx"}, fsx.Op{K: "Symlink", P: c03D2, Q: c03E1 + "/ld"})
	}
	for _, n := range cfg.nodes {
		if n.kind != "-" {
			setup = append(setup, fsx.Op{K: "Chown", P: n.path, N: int64(n.uid), M: int64(n.gid)}, fsx.Op{K: "Chmod", P: n.path, Perm: n.mode})
		}
	}
	for _, o := range setup {
		a, b := root.Exec(o), osr.Exec(o)
		if !a.Same(b) {
			k.c.Rep.Inconclusive = append(k.c.Rep.Inconclusive, fmt.Sprintf("set-up call %s differs (%s / %s): C01's business", o, a, b))
			return false
		}
	}
	v, err := m.Sub("/")
	if err != nil {
		return false
	}
	_ = v.SetUser(users[cfg.actor])
	_ = v.SetUMask(fs.FileMode(cfg.umask))
	l.emu = fsx.NewEnv(v)
	l.emuRaw = m
	l.osx = osr
	k.views = []avfs.VFS{m}
	return true
}

func (k *c03Run) one(cfg c03Cfg, o fsx.Op, kind string) {
	if !k.build(cfg) {
		return
	}
	l := k.l
	u := c03Users[cfg.actor]
	m := k.views[0]
	var re, ro fsx.Res
	re = l.emu.Exec(o)
	syscall.Umask(int(cfg.umask))
	if err := kern.AsUser(u[0], u[1], func() { ro = l.osx.Exec(o) }); err != nil {
		k.c.Rep.Inconclusive = append(k.c.Rep.Inconclusive, "cannot switch fsuid: "+err.Error())
		return
	}
	l.osx.CloseAll()
	l.emu.CloseAll()
	syscall.Umask(0)
	_ = os.Chdir("/")
	x, par := cfg.nodes[2], cfg.nodes[1]
	cls := o.K
	if o.K == "OpenWriteClose" {
		cls += "[" + fsx.FlagString(o.Flag) + "]"
	}
	if o.K == "Chown" || o.K == "Lchown" {
		cls += fmt.Sprintf("[%d,%d]", o.N, o.M)
	}
	if o.P != c03X {
		cls += " p=" + o.P
	}
	if o.Q != "" {
		cls += " q=" + o.Q
	}
	sigBase := fmt.Sprintf("%s|x=%s|actor=%s|d1:%s d2:%s x:%s e1:%s", cls, x.kind, actorClass(cfg.actor, x), classBits(cfg.actor, cfg.nodes[0]), classBits(cfg.actor, par), classBits(cfg.actor, x), classBits(cfg.actor, cfg.nodes[3]))
	replay := map[string]any{"nodes": fmt.Sprintf("%+v", cfg.nodes), "actor_uid_gid": u, "umask": fmt.Sprintf("%04o", cfg.umask), "call": o.String(), "memfs": re, "linux": ro, "part": kind}
	// protected_hardlinks=1 adds a refusal classic DAC does not have: excluded from the comparison, counted
	if o.K == "Link" && u[0] != 0 {
		src := x
		if o.P == c03Y {
			src = cfg.nodes[4]
		}
		if src.kind != "-" && src.uid != u[0] {
			// may_linkat(): a source the caller does not own must be a regular file it can read and write
			bits := classBits(cfg.actor, src)
			if src.kind != "f" || bits[0] != 'r' || bits[1] != 'w' {
				k.c.Rep.Count("link_cases_excluded_protected_hardlinks", 1)
				return
			}
		}
	}
	nontrivial := cfg.actor != 0
	if re.Err != ro.Err || re.Val != ro.Val {
		sig := fmt.Sprintf("%s|memfs=%s|linux=%s", sigBase, re.Err, ro.Err)
		if re.Err == ro.Err {
			sig = fmt.Sprintf("%s|%s|value-differs", sigBase, re.Err)
		}
		k.c.Rep.Case(sig, nontrivial)
		k.c.Disagree(sig, fmt.Sprintf("MemFS as uid %d gid %d (umask %04o): %s returns %s but the kernel returns %s for a thread with that fsuid/fsgid; nodes %+v", u[0], u[1], cfg.umask, o, re, ro, cfg.nodes), replay)
		return
	}
	k.c.Rep.Case(sigBase+"|"+re.Err, nontrivial)
	if o.K == "RemoveAll" && re.Err != "ok" {
		// RemoveAll is documented to remove what it can before failing: the partial effect is not part of the property
		k.c.Rep.Count("failed_removeall_tree_not_compared", 1)
		return
	}
	// effects: the whole tree incl. owners and modes of what was created
	sa := fsx.Snap(m, "/", fsx.SnapOpts{SymSize: true})
	sb := fsx.Snap(l.osx.FS, "/", fsx.SnapOpts{SymSize: true})
	if sa.String() != sb.String() {
		sig := fmt.Sprintf("%s|%s|tree:%s", sigBase, re.Err, diffKind(sa, sb))
		k.c.Disagree(sig, fmt.Sprintf("MemFS as uid %d gid %d (umask %04o): after %s (%s on both sides) the trees differ: %v", u[0], u[1], cfg.umask, o, re.Err, fsx.Diff(sa, sb, false, 6)), replay)
	}
}

func c03Default() []c03Node {
	return []c03Node{{c03D1, "d", 0, 0, 0o777}, {c03D2, "d", 0, 0, 0o777}, {c03X, "f", 0, 0, 0o666}, {c03E1, "d", 0, 0, 0o777}, {c03Y, "-", 0, 0, 0}}
}

func init() {
	register(&Check{
		Prop:   "C03",
		Chroot: true,
		Shards: shards(14, 16),
		Meta: func(tier string) rt.Meta {
			return rt.Meta{Level: "exploration", MinEvals: 20000, MinDistinct: 200,
				Rule:        "differential against the kernel under a switched fsuid/fsgid (no supplementary groups) in a chroot on tmpfs: configurations /w/d1/d2/x and /w/e1/y with (owner, group, 9 permission bits) per node, acting user among owner / same-group / other / administrator / an ordinary user whose primary group is gid 0, umask among {0,002,022,027,077,0777,0222,0111}; 45 calls (incl. Glob patterns and WalkDir across the configured directories, Chtimes with both, one or no time omitted). Exhaustive part: for every call, every one of the 512 modes of EACH ONE of d1, d2, x, e1 (others fully open) x 6 owner/group assignments x 5 users (quick: a seed-dependent 1/8 of the modes); random part: all nodes random. Compared: allow/refuse, errno, returned values, and the whole tree afterwards (owner, group, mode of created objects). Creation calls also carry the sticky/setuid/setgid bits in perm (mode perm &^ umask is about all twelve bits). Two symbolic links lead from e1 across to the other branch; MkdirAll, Stat, ReadDir and ReadFile go through them. Moves of directories: to another parent, below themselves (refused as such before any permission is checked), onto an existing directory. Signature = call | kind of x | actor class | the actor's effective rwx on each node | outcome; non-trivial = acting user is not the administrator.",
				Assumptions: []string{"only the 9 permission bits are assigned (no setuid/setgid/sticky)", "fs.protected_hardlinks=1 on this kernel: Link of a file the caller neither owns nor can read+write is excluded and counted"}}
		},
		Timeout: func(tier string) int {
			if tier == "thorough" {
				return 3000
			}
			return 900
		},
		Run: func(c *rt.Ctx) {
			kern.LockThread()
			hook.Sequential()
			k := &c03Run{c: c, l: &lockstep{c: c, fsType: "MemFS"}}
			calls := c03Calls()
			idx := 0
			step := c.Pick(8, 1)
			// exhaustive: one node at a time through all 512 modes
			for ni := 0; ni < 4; ni++ {
				for oi, own := range c03Owners {
					for mode := uint32(0); mode < 512; mode++ {
						if step > 1 && (int(mode)+int(c.Seed)+ni)%step != 0 {
							continue
						}
						for actor := 0; actor < len(c03Users); actor++ {
							idx++
							if idx%c.NShards != c.Shard {
								continue
							}
							for ki, xkind := range []string{"f", "d", "-"} {
								if ni == 2 && xkind == "-" {
									continue
								}
								// independent selectors (a multiplicative hash of the whole case) for the kind filter, the umask and the
								// third of the calls: selectors derived from the same small sum left some combinations (a directory or
								// missing x with a umask that clears the owner's bits) unvisited
								hx := (uint64(mode)*2654435761 + uint64(actor)*40503 + uint64(ni)*7919 + uint64(oi)*104729 + uint64(ki)*1299709 + uint64(c.Seed)*15485863) * 0x9E3779B97F4A7C15
								if xkind != "f" && (hx>>13)%3 != 0 {
									continue // the file case gets every mode, the directory/missing cases one in three
								}
								cfg := c03Cfg{nodes: c03Default(), actor: actor, umask: []uint32{0o022, 0, 0o077, 0o027, 0o002, 0o777, 0o222, 0o111}[(hx>>29)%8]}
								cfg.nodes[2].kind = xkind
								if xkind == "d" {
									cfg.nodes[2].mode = 0o777
								}
								cfg.nodes[ni].uid, cfg.nodes[ni].gid, cfg.nodes[ni].mode = own[0], own[1], mode
								for ci, o := range calls {
									if (uint64(ci)+(hx>>41))%3 != 0 {
										continue // each case gets a third of the calls; over the modes every call meets every class
									}
									k.one(cfg, o, "exhaustive-one-node")
								}
							}
						}
					}
				}
			}
			// random: every node random
			n := c.Pick(4000, 120000)
			for h := 0; h < n; h++ {
				if h%c.NShards != c.Shard {
					continue
				}
				r := c.Rand(fmt.Sprintf("rnd-%d", h))
				cfg := c03Cfg{nodes: c03Default(), actor: r.IntN(len(c03Users)), umask: []uint32{0o022, 0, 0o077, 0o027, 0o002, 0o777, 0o222, 0o111, uint32(r.IntN(512))}[r.IntN(9)]}
				for i := range cfg.nodes {
					own := c03Owners[r.IntN(len(c03Owners))]
					cfg.nodes[i].uid, cfg.nodes[i].gid, cfg.nodes[i].mode = own[0], own[1], randMode(r)
				}
				cfg.nodes[2].kind = []string{"f", "f", "d", "-"}[r.IntN(4)]
				cfg.nodes[4].kind = []string{"-", "-", "f", "d"}[r.IntN(4)]
				o := calls[r.IntN(len(calls))]
				k.one(cfg, o, "random")
				if h%997 == 0 {
					c.Rep.Sample(map[string]any{"nodes": fmt.Sprintf("%+v", cfg.nodes), "actor": c03Users[cfg.actor], "umask": fmt.Sprintf("%04o", cfg.umask), "call": o.String()}, 3)
				}
			}
		},
	})
}

func randMode(r *rand.Rand) uint32 {
	if r.IntN(3) == 0 {
		return []uint32{0o777, 0o755, 0o700, 0o750, 0o070, 0o007, 0o555, 0o333, 0o111, 0o666, 0o644, 0}[r.IntN(12)]
	}
	return uint32(r.IntN(512))
}
