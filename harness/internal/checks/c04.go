package checks

import (
	"fmt"
	"io/fs"
	"syscall"

	"verif/internal/fsx"
	"verif/internal/hook"
	"verif/internal/rt"
)

var c04Targets = []string{"f", "d", "l1", "l2", "l3", "../w/f", "../w/d", "/w/d", "/w/l2", "/w/f", "zz", "d/m", "l2/m", ".", "..", "/w", "/"}

func c04Graph(t1, t2, t3 string) []fsx.Op {
	return []fsx.Op{
		{K: "Mkdir", P: "/w", Perm: 0o755},
		{K: "WriteFile", P: "/w/f", Data: "content-of-f", Perm: 0o644},
		{K: "Mkdir", P: "/w/d", Perm: 0o755},
		{K: "WriteFile", P: "/w/d/m", Data: "marker-of-d", Perm: 0o644},
		{K: "Symlink", P: t1, Q: "/w/l1"},
		{K: "Symlink", P: t2, Q: "/w/l2"},
		{K: "Symlink", P: t3, Q: "/w/l3"},
	}
}

func c04Paths() []string {
	names := []string{"l1", "l2", "l3", "d", "f", "m", "zz"}
	var out []string
	for _, a := range names {
		out = append(out, "/w/"+a)
		for _, b := range names {
			out = append(out, "/w/"+a+"/"+b)
			for _, c := range []string{"m", "l1", "f", "zz"} {
				out = append(out, "/w/"+a+"/"+b+"/"+c)
			}
		}
	}
	return out
}

var c04Queries = []string{"Stat", "Lstat", "ReadFile", "ReadDir", "EvalSymlinks", "Readlink"}

func c04Mutations(p string) []fsx.Op {
	return []fsx.Op{
		{K: "Chmod", P: p, Perm: 0o600},
		{K: "Truncate", P: p, N: 3},
		{K: "Mkdir", P: p + "/new", Perm: 0o755},
		{K: "Remove", P: p},
		{K: "Rename", P: p, Q: "/w/renamed"},
		{K: "Rename", P: "/w/f", Q: p},
		{K: "Lchown", P: p, N: 1000, M: 1000},
		{K: "Chown", P: p, N: 1000, M: 1000},
		{K: "Link", P: p, Q: "/w/hard"},
		{K: "Chdir", P: p},
		{K: "OpenWriteClose", P: p, Flag: syscall.O_WRONLY | syscall.O_APPEND, Data: "+"},
		{K: "OpenWriteClose", P: p, Flag: syscall.O_RDWR | syscall.O_CREAT, Perm: 0o644, Data: "c"},
		{K: "WriteFile", P: p, Data: "w", Perm: 0o644},
		{K: "Chtimes", P: p, N: 3},
		{K: "RemoveAll", P: p},
		{K: "MkdirAll", P: p + "/x/y", Perm: 0o755},
		{K: "Symlink", P: "f", Q: p},
	}
}

// c04Names compares the name a FileInfo carries: Stat and Lstat of a path report the last element of the path they
// were given, whatever the links on the way lead to.
func c04Names(c *rt.Ctx, l *lockstep, p string) {
	fsx.BeginCall()
	for _, q := range []string{"Stat", "Lstat"} {
		var fa, fb fs.FileInfo
		var ea, eb error
		if q == "Stat" {
			fa, ea = l.emu.FS.Stat(p)
			fb, eb = l.osx.FS.Stat(p)
		} else {
			fa, ea = l.emu.FS.Lstat(p)
			fb, eb = l.osx.FS.Lstat(p)
		}
		if ea != nil || eb != nil {
			continue
		}
		c.Rep.Case("MemFS|"+q+"|name-of-the-info", true)
		if fa.Name() != fb.Name() {
			c.Disagree("MemFS|"+q+"|name-of-the-info-differs", fmt.Sprintf("MemFS: %s(%q).Name() = %q but %q on Linux (graph %v)", q, p, fa.Name(), fb.Name(), opStrings(l.hist)), map[string]any{"path": p, "graph": opStrings(l.hist)})
		}
	}
}

func c04Build(l *lockstep, g []fsx.Op) bool {
	if err := l.reset(0o022); err != nil {
		l.c.Rep.Inconclusive = append(l.c.Rep.Inconclusive, "kernel reset failed: "+err.Error())
		return false
	}
	for _, o := range g {
		a, b := l.emu.Exec(o), l.osx.Exec(o)
		l.hist = append(l.hist, o)
		if !a.Same(b) {
			return false // Symlink itself disagrees: C01's business
		}
	}
	l.mutated = true
	return true
}

func init() {
	register(&Check{
		Prop:   "C04",
		Chroot: true,
		Shards: shards(12, 16),
		Meta: func(tier string) rt.Meta {
			return rt.Meta{Level: "exploration", MinEvals: 20000, MinDistinct: 100,
				Rule:        "differential against the kernel and path/filepath (chroot on tmpfs), MemFS only: link graphs over 3 link names + a directory (with a marker child) + a file in /w, each link's target drawn from 17 shapes (sibling, ../w/x, absolute, itself and the other links - 2- and 3-cycles, chains -, missing, through a directory, through another link, '.', '..', '/'); every query path of <= 3 components over the names; the queries Stat/Lstat/ReadFile/ReadDir/EvalSymlinks/Readlink on every path without rebuilding, and 17 mutating calls (each on a freshly rebuilt graph, full tree compared afterwards), plus the sequence Link(link, other name) then Remove/Rename-over/RemoveAll of the first name followed by queries through the other name. The name carried by the FileInfo of Stat/Lstat is compared on every query path. EvalSymlinks also on paths that continue with '..', '.' and further names after every query path (resolved against what the link leads to, not lexically). Two links on one path (a link to a directory that holds a second link which dangles, loops, leads to a file, a directory or back up) under 60 creating/removing calls and the queries. A family of graphs whose directory names are string prefixes of their siblings (a, ab, abc, /w and /wa) with links leaving a for ab/abc. Chains of length 1..256 for the loop budget. Quick samples the graph space by seed, thorough enumerates all 17^3 graphs for the queries. Signature = call | pre-state class of the operand (link->file/dir/missing/loop, via-link, ...) | outcome; non-trivial: all (every case has links).",
				Assumptions: []string{"query paths and link targets are lexically clean; unclean spellings are defined by Clean() in C01"}}
		},
		Timeout: func(tier string) int {
			if tier == "thorough" {
				return 3000
			}
			return 600
		},
		Run: func(c *rt.Ctx) {
			hook.Sequential()
			syscall.Umask(0o022)
			l := &lockstep{c: c, fsType: "MemFS", symSize: true}
			paths := c04Paths()
			r := c.Rand("graphs")
			idx := 0
			nT := len(c04Targets)
			total := nT * nT * nT
			stride := 1
			if c.Quick() {
				stride = 7 // a seed-dependent 1/7 sample of the graph space
			}
			offset := int(c.Seed) % stride
			if offset < 0 {
				offset = -offset
			}
			for gi := offset; gi < total; gi += stride {
				idx++
				if idx%c.NShards != c.Shard {
					continue
				}
				g := c04Graph(c04Targets[gi%nT], c04Targets[(gi/nT)%nT], c04Targets[gi/(nT*nT)])
				if !c04Build(l, g) {
					continue
				}
				c.Rep.Count("graphs", 1)
				if idx%97 == 0 {
					c.Rep.Sample(map[string]any{"graph": opStrings(g[4:]), "queries_per_path": c04Queries, "paths": len(paths)}, 3)
				}
				// queries: no rebuild needed
				ok := true
				for pi, p := range paths {
					for _, q := range c04Queries {
						sr := l.stepQuery(fsx.Op{K: q, P: p})
						l.report(0o022, sr, false)
						if sr.fatal {
							ok = false
							break
						}
					}
					if !ok {
						break
					}
					c04Names(c, l, p)
					// EvalSymlinks resolves ".." against what the link before it leads to, not lexically (the one call whose
					// answer for a path is not that of its Clean() form): dot-dot, dot and further names after every path
					if (pi+gi)%3 == 0 {
						for _, tail := range []string{"/..", "/../f", "/../d/m", "/.", "/../l1", "/../../w/f"} {
							sr := l.stepQuery(fsx.Op{K: "EvalSymlinks", P: p + tail})
							sr.sig = "dotdot|" + sr.sig
							l.report(0o022, sr, false)
						}
					}
				}
				// mutations: a few per graph, each on a freshly rebuilt graph
				nm := c.Pick(6, 40)
				for k := 0; k < nm; k++ {
					p := paths[r.IntN(len(paths))]
					if r.IntN(2) == 0 {
						p = "/w/" + []string{"l1", "l2", "l3"}[r.IntN(3)]
					}
					ms := c04Mutations(p)
					o := ms[r.IntN(len(ms))]
					if !c04Build(l, g) {
						break
					}
					sr := l.step(o)
					l.report(0o022, sr, false)
				}
				// a second name for a link, then the first name goes away: the link lives on under the other name
				if c04Build(l, g) {
					lk := "/w/" + []string{"l1", "l2", "l3"}[r.IntN(3)]
					second := []fsx.Op{{K: "Remove", P: lk}, {K: "Rename", P: "/w/f", Q: lk}, {K: "RemoveAll", P: lk}}[r.IntN(3)]
					for _, o := range []fsx.Op{{K: "Link", P: lk, Q: "/w/hard"}, second} {
						sr := l.step(o)
						if l.report(0o022, sr, false); sr.fatal || sr.disagree {
							break
						}
					}
					for _, q := range []string{"Lstat", "Readlink", "Stat", "ReadFile", "EvalSymlinks"} {
						for _, qp := range []string{"/w/hard", "/w/hard/m"} {
							l.report(0o022, l.stepQuery(fsx.Op{K: q, P: qp}), false)
						}
					}
				}
			}
			// names that are string prefixes of their siblings: a link whose target leaves its directory for a sibling
			// "ab"/"abc" of that directory "a" (or for "/wa" beside "/w") must restart the walk, not continue inside "a"
			if c.Shard == 1%c.NShards {
				base := []fsx.Op{{K: "Mkdir", P: "/w", Perm: 0o755}, {K: "Mkdir", P: "/wa", Perm: 0o755}, {K: "WriteFile", P: "/wa/m", Data: "in-wa", Perm: 0o644}}
				for _, d := range []string{"/w/a", "/w/ab", "/w/abc", "/w/a/b", "/w/a/bc", "/w/a/c", "/w/a/a", "/w/ab/c"} {
					base = append(base, fsx.Op{K: "Mkdir", P: d, Perm: 0o755}, fsx.Op{K: "WriteFile", P: d + "/m", Data: "in-" + d, Perm: 0o644})
				}
				targets := []string{"../ab", "../abc", "/w/ab", "/w/abc", "../../wa", "/wa", "b", "bc", "../a/b", "../a", "/w/a", "../ab/c", "/w/ab/c", "../abc/m", "/wa/m", "../../w/ab", "a", "."}
				for _, t1 := range targets {
					for _, t2 := range []string{"", "lk", "../a/lk", "/w/a/lk"} {
						g := append(append([]fsx.Op{}, base...), fsx.Op{K: "Symlink", P: t1, Q: "/w/a/lk"})
						if t2 != "" {
							g = append(g, fsx.Op{K: "Symlink", P: t2, Q: "/w/a/l2"})
						}
						if !c04Build(l, g) {
							continue
						}
						c.Rep.Count("prefix_name_graphs", 1)
						for _, p := range []string{"/w/a/lk", "/w/a/lk/m", "/w/a/lk/c", "/w/a/lk/c/m", "/w/a/l2", "/w/a/l2/m", "/w/a/lk/b/m"} {
							for _, q := range c04Queries {
								sr := l.stepQuery(fsx.Op{K: q, P: p})
								l.report(0o022, sr, false)
							}
						}
						for _, o := range []fsx.Op{{K: "WriteFile", P: "/w/a/lk/new", Data: "n", Perm: 0o644}, {K: "Mkdir", P: "/w/a/lk/nd", Perm: 0o755}, {K: "Chdir", P: "/w/a/lk"}, {K: "Remove", P: "/w/a/lk/m"}} {
							if !c04Build(l, g) {
								break
							}
							sr := l.step(o)
							l.report(0o022, sr, false)
						}
					}
				}
			}
			// two links on one path: a link in /w leading (or not) to a directory that holds a second link, which dangles,
			// loops, leads to a file, to a directory or back up; creating and querying calls go through both
			if c.Shard == 2%c.NShards {
				for _, t1 := range []string{"real", "/w/real", "../w/real", "zz", "good", "f", "real/sub"} {
					for _, t2 := range []string{"gone", "../gone", "/w/gone", "../f", "dang", "../real", "sub", "../good", "/w/good/sub", "gone/deeper"} {
						g := []fsx.Op{
							{K: "Mkdir", P: "/w", Perm: 0o755}, {K: "WriteFile", P: "/w/f", Data: "content-of-f", Perm: 0o644},
							{K: "Mkdir", P: "/w/real", Perm: 0o755}, {K: "Mkdir", P: "/w/real/sub", Perm: 0o755}, {K: "WriteFile", P: "/w/real/sub/m", Data: "m", Perm: 0o644},
							{K: "Symlink", P: t1, Q: "/w/good"}, {K: "Symlink", P: t2, Q: "/w/real/dang"}, {K: "Symlink", P: t2, Q: "/w/real/sub/dang"},
						}
						var ops []fsx.Op
						for _, p := range []string{"/w/good/dang", "/w/good/dang/x", "/w/good/dang/x/y", "/w/good/sub/dang/x", "/w/real/dang/x", "/w/good/dang/m"} {
							ops = append(ops, fsx.Op{K: "MkdirAll", P: p, Perm: 0o755}, fsx.Op{K: "Mkdir", P: p, Perm: 0o755}, fsx.Op{K: "WriteFile", P: p, Data: "w", Perm: 0o644},
								fsx.Op{K: "OpenWriteClose", P: p, Flag: syscall.O_WRONLY | syscall.O_CREAT | syscall.O_EXCL, Perm: 0o644, Data: "c"}, fsx.Op{K: "Symlink", P: "f", Q: p},
								fsx.Op{K: "Rename", P: "/w/f", Q: p}, fsx.Op{K: "Link", P: "/w/f", Q: p}, fsx.Op{K: "Remove", P: p}, fsx.Op{K: "RemoveAll", P: p}, fsx.Op{K: "Chdir", P: p})
						}
						for _, o := range ops {
							if !c04Build(l, g) {
								break
							}
							c.Rep.Count("two_link_path_cases", 1)
							sr := l.step(o)
							l.report(0o022, sr, false)
						}
						if c04Build(l, g) {
							for _, p := range []string{"/w/good/dang", "/w/good/dang/x", "/w/good/sub/dang", "/w/good/sub/dang/m", "/w/real/dang/sub/m"} {
								for _, q := range c04Queries {
									l.report(0o022, l.stepQuery(fsx.Op{K: q, P: p}), false)
								}
								c04Names(c, l, p)
							}
						}
					}
				}
			}
			// loop budget: chains c0 -> c1 -> ... -> f
			if c.Shard == 0 {
				for _, n := range []int{1, 2, 8, 39, 40, 41, 64, 65, 255, 256} {
					g := []fsx.Op{{K: "Mkdir", P: "/w", Perm: 0o755}, {K: "WriteFile", P: "/w/f", Data: "x", Perm: 0o644}, {K: "Mkdir", P: "/w/d", Perm: 0o755}}
					for i := n - 1; i >= 0; i-- {
						t := fmt.Sprintf("c%d", i+1)
						if i == n-1 {
							t = "f"
						}
						g = append(g, fsx.Op{K: "Symlink", P: t, Q: fmt.Sprintf("/w/c%d", i)})
					}
					// and the same chain ending at the directory, used in intermediate position
					for i := n - 1; i >= 0; i-- {
						t := fmt.Sprintf("e%d", i+1)
						if i == n-1 {
							t = "d"
						}
						g = append(g, fsx.Op{K: "Symlink", P: t, Q: fmt.Sprintf("/w/e%d", i)})
					}
					// a link inside the directory: the last element of a path whose directory part uses up the budget
					// (a final link that is not followed does not count: Lstat and Readlink behind 40 links succeed)
					g = append(g, fsx.Op{K: "Symlink", P: "/w/f", Q: "/w/d/lnk"})
					if !c04Build(l, g) {
						continue
					}
					for _, o := range []fsx.Op{{K: "Stat", P: "/w/c0"}, {K: "ReadFile", P: "/w/c0"}, {K: "EvalSymlinks", P: "/w/c0"}, {K: "Lstat", P: "/w/c0"}, {K: "Stat", P: "/w/e0/x"}, {K: "ReadDir", P: "/w/e0"}, {K: "EvalSymlinks", P: "/w/e0"},
						{K: "Lstat", P: "/w/e0/lnk"}, {K: "Readlink", P: "/w/e0/lnk"}, {K: "Stat", P: "/w/e0/lnk"}, {K: "ReadFile", P: "/w/e0/lnk"}, {K: "EvalSymlinks", P: "/w/e0/lnk"}, {K: "Lstat", P: "/w/e1/lnk"}, {K: "Stat", P: "/w/e1/lnk"}} {
						sr := l.stepQuery(o)
						sr.sig = fmt.Sprintf("chain=%d|", n) + sr.sig
						l.report(0o022, sr, false)
					}
				}
			}
		},
	})
}
