package checks

import (
	"fmt"
	"io/fs"
	"strings"

	"github.com/avfs/avfs"
	"github.com/avfs/avfs/vfs/memfs"
	"github.com/avfs/avfs/vfs/orefafs"

	"verif/internal/fsx"
	"verif/internal/gen"
	"verif/internal/hook"
	"verif/internal/rt"
)

type verifChecker interface{ VerifCheck() []string }

func c05New(fsType string, osType avfs.OSType) (avfs.VFS, verifChecker) {
	switch fsType {
	case "OrefaFS":
		o := &orefafs.Options{OSType: osType}
		if osType != avfs.OsWindows {
			o.User = avfs.NewUser("root", 0, 0)
		}
		v := orefafs.NewWithOptions(o)
		return v, v
	default:
		v := memfs.NewWithOptions(&memfs.Options{OSType: osType})
		return v, v
	}
}

// c05Paths converts the operands of a generated (Unix-style) call for the file system's OS type.
func c05Conv(v avfs.VFS, o fsx.Op) fsx.Op {
	if v.OSType() != avfs.OsWindows {
		return o
	}
	cv := func(p string) string {
		if p == "" {
			return p
		}
		return avfs.FromUnixPath(v, p)
	}
	switch o.K {
	case "Symlink":
		if strings.HasPrefix(o.P, "/") {
			o.P = cv(o.P)
		} else {
			o.P = v.FromSlash(o.P)
		}
		o.Q = cv(o.Q)
	default:
		o.P = cv(o.P)
		if o.K == "Rename" || o.K == "Link" {
			o.Q = cv(o.Q)
		}
	}
	return o
}

// allowedSet computes, in the pre-state, the paths a successful call may change (DESIGN.md §5 C05, frame monitor).
func c05Allowed(v avfs.VFS, pre *fsx.Snapshot, o fsx.Op, cwd string) func(path string) bool {
	var named []string
	add := func(p string) {
		if p == "" && o.K != "CreateTemp" && o.K != "MkdirTemp" {
			p = "."
		}
		abs := p
		if !v.IsAbs(p) {
			abs = v.Join(cwd, p)
		}
		abs = v.Clean(abs)
		named = append(named, abs)
		named = append(named, looseResolve(v, abs)...)
		// what the path and its parent resolve to through symbolic links
		if r, err := v.EvalSymlinks(abs); err == nil {
			named = append(named, v.Clean(r))
		}
		if r, err := v.EvalSymlinks(v.Dir(abs)); err == nil {
			named = append(named, v.Join(r, v.Base(abs)))
			// a dangling link as last component: the call may create its target
			if t, lerr := v.Readlink(v.Join(r, v.Base(abs))); lerr == nil {
				tp := t
				if !v.IsAbs(t) {
					tp = v.Join(r, t)
				}
				named = append(named, v.Clean(tp))
				if rr, e2 := v.EvalSymlinks(v.Dir(tp)); e2 == nil {
					named = append(named, v.Join(rr, v.Base(tp)))
				}
			}
		}
	}
	switch o.K {
	case "Symlink":
		add(o.Q)
	case "Rename", "Link":
		add(o.P)
		add(o.Q)
	case "CreateTemp", "MkdirTemp":
		d := o.P
		if d == "" {
			d = v.TempDir()
		}
		add(d)
	default:
		if strings.HasPrefix(o.K, "F.") {
			return func(string) bool { return true } // handle calls: the frame is the file behind the handle (C02)
		}
		add(o.P)
	}
	sep := string(v.PathSeparator())
	// hard-link classes of named regular files / symbolic links and of those below named directories
	classes := map[string]bool{}
	exists := map[string]bool{}
	for _, r := range pre.Recs {
		exists[r.Path] = true
		if r.Type != "f" && r.Type != "l" {
			continue
		}
		for _, n := range named {
			if r.Path == n || strings.HasPrefix(r.Path, strings.TrimSuffix(n, sep)+sep) {
				classes[r.Class] = true
			}
		}
	}
	// MkdirAll creates the missing ancestors of the path it names
	if o.K == "MkdirAll" {
		for _, n := range append([]string{}, named...) {
			for d := v.Dir(n); d != v.Dir(d); d = v.Dir(d) {
				if !exists[d] {
					named = append(named, d)
				}
			}
		}
	}
	classOf := map[string]string{}
	for _, r := range pre.Recs {
		if r.Type == "f" || r.Type == "l" {
			classOf[r.Path] = r.Class
		}
	}
	return func(path string) bool {
		for _, n := range named {
			if path == n || strings.HasPrefix(path, strings.TrimSuffix(n, sep)+sep) {
				return true
			}
		}
		if c, ok := classOf[path]; ok && classes[c] {
			return true
		}
		return false
	}
}

// looseResolve follows the symbolic links met along abs even when their targets do not exist (a call that creates
// through a dangling link creates the link's target): it returns every intermediate spelling of the path.
func looseResolve(v avfs.VFS, abs string) []string {
	var out []string
	sep := string(v.PathSeparator())
	cur := abs
	for n := 0; n < 12; n++ {
		vl := avfs.VolumeNameLen(v, cur)
		parts := strings.Split(strings.TrimPrefix(cur[vl:], sep), sep)
		prefix := cur[:vl] + sep
		changed := false
		for i, part := range parts {
			if part == "" {
				continue
			}
			p := v.Join(prefix, part)
			t, err := v.Readlink(p)
			if err != nil {
				if _, lerr := v.Lstat(p); lerr != nil {
					break // missing: the rest is created below here
				}
				prefix = p
				continue
			}
			rest := strings.Join(parts[i+1:], sep)
			if v.IsAbs(t) {
				cur = v.Join(t, rest)
			} else {
				cur = v.Join(prefix, t, rest)
			}
			out = append(out, cur)
			changed = true
			break
		}
		if !changed {
			break
		}
	}
	return out
}

func c05History(c *rt.Ctx, fsType string, osType avfs.OSType, h int) {
	r := c.Rand(fmt.Sprintf("c05-%s-%d-%d", fsType, osType, h))
	v, chk := c05New(fsType, osType)
	// MemFS enforces permissions: a third of the calls of a Linux-typed history are issued by a non-administrator, so
	// that calls fail half-way (RemoveAll stopping at a protected directory, MkdirAll below a read-only one, ...)
	var users []avfs.UserReader
	if fsType == "MemFS" && osType == avfs.OsLinux && h%4 < 2 {
		m, us := newMemWithUsers()
		v, chk, users = m, m, us
	}
	tag := fsType + "/" + osType.String()
	if v.OSType() != osType {
		c.Disagree(tag+"|construction", fmt.Sprintf("%s created with OSType %s reports %s", fsType, osType, v.OSType()), nil)
		return
	}
	root := "/"
	if osType == avfs.OsWindows {
		root = avfs.FromUnixPath(v, "/")
	}
	cfg := gen.Cfg{Root: "/w", Names: []string{"a", "ab", "c"}, Depth: 3, NoChange: true, Links: true, Owners: osType != avfs.OsWindows, Temps: true, Chdir: true, Specials: true, EmptyPath: true, Unclean: true, Handles: true}
	if fsType == "MemFS" {
		cfg.Symlinks = true
	}
	g := gen.New(cfg, r)
	env := fsx.NewEnv(v)
	var hist []string
	replay := func() any { return map[string]any{"fs": fsType, "os": osType.String(), "history": hist} }
	env.Exec(c05Conv(v, fsx.Op{K: "Mkdir", P: "/w", Perm: 0o755}))
	opt := fsx.SnapOpts{SymSize: true}
	pre := fsx.Snap(v, root, opt)
	n := c.Pick(200, 300)
	for i := 0; i < n; i++ {
		cwd, _ := v.Getwd()
		// the generator works on Unix-style paths: give it the tree in that style
		recs := pre.Recs
		if osType == avfs.OsWindows {
			recs = nil
			for _, rec := range pre.Recs {
				rec.Path = v.ToSlash(strings.TrimPrefix(rec.Path, avfs.DefaultVolume))
				recs = append(recs, rec)
			}
			cwd = v.ToSlash(strings.TrimPrefix(cwd, avfs.DefaultVolume))
		}
		g.Observe(recs, cwd)
		o := g.Next()
		if o.K == "F.Chdir" {
			continue
		}
		o = c05Conv(v, o)
		rcwd, _ := v.Getwd()
		allowed := c05Allowed(v, pre, o, rcwd)
		actor := 0
		if users != nil && r.IntN(3) == 0 {
			actor = 1 + r.IntN(2)
			_ = v.SetUser(users[actor])
		}
		var res fsx.Res
		viaView := false
		if fsType == "MemFS" && actor == 0 && r.IntN(5) == 0 && v.IsAbs(o.P) && (o.Q == "" || o.K == "Symlink" || v.IsAbs(o.Q)) &&
			!strings.HasPrefix(o.K, "F.") && o.K != "OpenFile" && o.K != "Create" && o.K != "CreateTemp" && o.K != "MkdirTemp" && o.K != "Chdir" {
			// the same tree through a fresh view of its root: what the view creates lives in the one tree (identities,
			// link counts) exactly as what the file system itself creates
			if vw, err := v.Sub(root); err == nil {
				res, viaView = fsx.NewEnv(vw).Exec(o), true
			}
		}
		if !viaView {
			res = env.Exec(o)
		}
		if actor != 0 {
			_ = v.SetUser(users[0]) // the monitors look at the tree as the administrator
			hist = append(hist, fmt.Sprintf("as %s: %s -> %s", users[actor].Name(), o, res.Err))
		} else if viaView {
			hist = append(hist, "through a view of the root: "+o.String()+" -> "+res.Err)
		} else {
			hist = append(hist, o.String()+" -> "+res.Err)
		}
		kind := o.K
		who := ""
		if actor != 0 {
			who = "@user"
		}
		if fatalRes(res) {
			c.Rep.Count("histories_ended_by_panic_or_deadlock", 1) // C07's business
			if len(c.Rep.Notes) < 6 {
				c.Rep.Notes = append(c.Rep.Notes, fmt.Sprintf("%s: %s -> %s (%s) after %v", tag, o, res.Err, res.Raw, hist[max(0, len(hist)-12):]))
			}
			return
		}
		post := fsx.Snap(v, root, opt)
		c.Rep.Case(fmt.Sprintf("%s|%s%s|%s", tag, kind, who, res.Err), i > 0)
		// (1) public-API invariants
		if bad := post.InvariantProblems(); len(bad) > 0 {
			c.Disagree(fmt.Sprintf("%s|%s|%s|public-invariant:%s", tag, kind, res.Err, firstWords(bad[0])), fmt.Sprintf("%s: after %s the tree is not well formed: %v", tag, hist[len(hist)-1], bad[:min3(4, len(bad))]), replay())
			return
		}
		// (2) internal structure (hook)
		if bad := chk.VerifCheck(); len(bad) > 0 {
			c.Disagree(fmt.Sprintf("%s|%s|%s|internal-invariant:%s", tag, kind, res.Err, firstWords(bad[0])), fmt.Sprintf("%s: after %s the internal structure is inconsistent: %v", tag, hist[len(hist)-1], bad[:min3(4, len(bad))]), replay())
			return
		}
		// (3) frame conditions
		diff := fsx.Diff(pre, post, false, 0)
		if len(diff) > 0 {
			switch {
			case res.Err != "ok" && !strings.HasPrefix(res.Err, "eof") && kind != "RemoveAll" && !strings.HasPrefix(kind, "F.") && kind != "OpenWriteClose" && kind != "WriteFile" && kind != "MkdirAll" && kind != "CreateTemp" && kind != "MkdirTemp":
				c.Disagree(fmt.Sprintf("%s|%s|%s|failed-call-changed-tree", tag, kind, res.Err), fmt.Sprintf("%s: %s failed but changed the tree: %v", tag, hist[len(hist)-1], diff[:min3(6, len(diff))]), replay())
				return
			case res.Err == "ok":
				for _, d := range diff {
					p := strings.Fields(d[2:])[0]
					if (kind == "CreateTemp" || kind == "MkdirTemp") && len(env.Temps) > 0 && strings.HasPrefix(p, env.Temps[len(env.Temps)-1]) {
						continue
					}
					if !allowed(p) {
						c.Disagree(fmt.Sprintf("%s|%s|ok|changed-outside-footprint", tag, kind), fmt.Sprintf("%s: %s succeeded and changed %q, which it does not name: %v", tag, hist[len(hist)-1], p, diff[:min3(6, len(diff))]), replay())
						return
					}
				}
			}
		}
		pre = post
	}
	c.Rep.Count("complete_histories", 1)
	c.Rep.Sample(map[string]any{"fs": tag, "last_calls": hist[max(0, len(hist)-6):]}, 4)
}

// c05Volumes: the tree of a Windows-typed MemFS is a forest, one root per volume, and hard links and renames cross the
// volumes; volumes are added and deleted with their content meanwhile. After every call the link count of every regular
// file of every volume equals the number of paths, over all the volumes, that are SameFile with it, and the internal
// checker (which walks every volume) agrees.
func c05Volumes(c *rt.Ctx, h int) {
	r := c.Rand(fmt.Sprintf("c05-vol-%d", h))
	v := memfs.NewWithOptions(&memfs.Options{OSType: avfs.OsWindows})
	if v.OSType() != avfs.OsWindows {
		return
	}
	vols := []string{"C:", "D:", "E:"}
	names := []string{`\f`, `\g`, `\d`, `\d\f`, `\d\g`, `\d\e`, `\d\e\f`}
	var hist []string
	replay := func() any { return map[string]any{"fs": "MemFS", "os": "Windows", "history": hist} }
	pick := func() string { return vols[r.IntN(len(vols))] + names[r.IntN(len(names))] }
	n := c.Pick(40, 80)
	for i := 0; i < n; i++ {
		fsx.BeginCall()
		var what string
		var err error
		kind := ""
		switch k := r.IntN(20); {
		case k < 2:
			// the volume is named by its bare name or by a path on it
			vol := vols[1+r.IntN(2)] + []string{"", "", `\`, `/`, `\d`}[r.IntN(5)]
			kind, err = "VolumeAdd", v.VolumeAdd(vol)
			what = fmt.Sprintf("VolumeAdd(%q)", vol)
		case k < 4:
			vol := vols[1+r.IntN(2)]
			kind, err = "VolumeDelete", v.VolumeDelete(vol)
			what = fmt.Sprintf("VolumeDelete(%q)", vol)
		case k < 8:
			p := pick()
			kind, err = "WriteFile", v.WriteFile(p, []byte(p), 0o644)
			what = fmt.Sprintf("WriteFile(%q)", p)
		case k < 10:
			p := pick()
			kind, err = "MkdirAll", v.MkdirAll(p, 0o755)
			what = fmt.Sprintf("MkdirAll(%q)", p)
		case k < 14:
			p, q := pick(), pick()
			kind, err = "Link", v.Link(p, q)
			what = fmt.Sprintf("Link(%q,%q)", p, q)
		case k < 16:
			p, q := pick(), pick()
			kind, err = "Rename", v.Rename(p, q)
			what = fmt.Sprintf("Rename(%q,%q)", p, q)
		case k < 18:
			p := pick()
			kind, err = "Remove", v.Remove(p)
			what = fmt.Sprintf("Remove(%q)", p)
		default:
			p := pick()
			kind, err = "RemoveAll", v.RemoveAll(p)
			what = fmt.Sprintf("RemoveAll(%q)", p)
		}
		hist = append(hist, fmt.Sprintf("%s -> %v", what, err))
		c.Rep.Case(fmt.Sprintf("MemFS/Windows|volumes|%s|%s", kind, fsx.ErrClass(err)), i > 0)
		// public view: every regular file of every volume
		fsx.BeginCall()
		type ent struct {
			path string
			fi   fs.FileInfo
		}
		var files []ent
		for _, vol := range v.VolumeList() {
			budget := 4000
			_ = v.WalkDir(vol+`\`, func(path string, d fs.DirEntry, werr error) error {
				budget--
				if budget < 0 {
					return fmt.Errorf("walk budget exceeded")
				}
				if werr == nil && d != nil && d.Type().IsRegular() {
					if fi, err := v.Lstat(path); err == nil {
						files = append(files, ent{path, fi})
					}
				}
				return nil
			})
			if budget < 0 {
				c.Disagree("MemFS/Windows|volumes|"+kind+"|walk-does-not-end", fmt.Sprintf("Windows-typed MemFS: after %v the walk of volume %s does not end", hist[max(0, len(hist)-5):], vol), replay())
				return
			}
		}
		for _, a := range files {
			same := 0
			for _, b := range files {
				if v.SameFile(a.fi, b.fi) {
					same++
				}
			}
			if nl := v.ToSysStat(a.fi).Nlink(); nl != uint64(same) {
				c.Disagree("MemFS/Windows|volumes|"+kind+"|nlink-differs-from-names", fmt.Sprintf("Windows-typed MemFS: after %v the link count of %s is %d but %d path(s) over the volumes %v are SameFile with it", hist[max(0, len(hist)-6):], a.path, nl, same, v.VolumeList()), replay())
				return
			}
		}
		if bad := v.VerifCheck(); len(bad) > 0 {
			c.Disagree("MemFS/Windows|volumes|"+kind+"|internal-invariant:"+firstWords(bad[0]), fmt.Sprintf("Windows-typed MemFS: after %v the internal structure is inconsistent: %v", hist[max(0, len(hist)-6):], bad[:min3(4, len(bad))]), replay())
			return
		}
	}
	c.Rep.Count("complete_volume_histories", 1)
	c.Rep.Sample(map[string]any{"fs": "MemFS/Windows volumes", "last_calls": hist[max(0, len(hist)-6):]}, 2)
}

// c05Repeats: trees whose paths repeat themselves (/a/x/a/y, /w/a/k/w/a/y: the path of a directory occurs again inside
// the path of one of its descendants), then renames and removals of those directories. A file system that keeps an
// index of absolute paths has to re-key exactly the leading occurrence. Monitors (1) and (2) after every call.
func c05Repeats(c *rt.Ctx, fsType string, h int) {
	r := c.Rand(fmt.Sprintf("c05-rep-%s-%d", fsType, h))
	v, chk := c05New(fsType, avfs.OsLinux)
	names := []string{"a", "w", "x"}
	var dirs []string
	var hist []string
	replay := func() any { return map[string]any{"fs": fsType, "history": hist} }
	// a few chains of 3-6 components over three names, each ending in a file
	for k := 0; k < 3; k++ {
		p := ""
		for d := 0; d < 3+r.IntN(4); d++ {
			p += "/" + names[r.IntN(len(names))]
			dirs = append(dirs, p)
		}
		_ = v.MkdirAll(p, 0o755)
		_ = v.WriteFile(p+"/y", []byte(p), 0o644)
		hist = append(hist, "MkdirAll+WriteFile "+p+"/y")
	}
	for i := 0; i < 8; i++ {
		fsx.BeginCall()
		src := dirs[r.IntN(len(dirs))]
		var what string
		var err error
		switch r.IntN(5) {
		case 0, 1, 2:
			dst := v.Dir(src) + "/" + []string{"b", "a", "w", "n" + fmt.Sprint(i)}[r.IntN(4)]
			if r.IntN(4) == 0 {
				dst = "/" + []string{"b", "m"}[r.IntN(2)]
			}
			err = v.Rename(src, dst)
			what = fmt.Sprintf("Rename(%q,%q)", src, dst)
			if err == nil {
				for j, d := range dirs {
					if d == src || strings.HasPrefix(d, src+"/") {
						dirs[j] = dst + d[len(src):]
					}
				}
			}
		case 3:
			err = v.RemoveAll(src)
			what = fmt.Sprintf("RemoveAll(%q)", src)
		default:
			err = v.WriteFile(src+"/z", []byte("z"), 0o644)
			what = fmt.Sprintf("WriteFile(%q)", src+"/z")
		}
		hist = append(hist, fmt.Sprintf("%s -> %v", what, err))
		kind := strings.SplitN(what, "(", 2)[0]
		c.Rep.Case(fmt.Sprintf("%s|repeated-segments|%s|%s", fsType, kind, fsx.ErrClass(err)), true)
		post := fsx.Snap(v, "/", fsx.SnapOpts{})
		if bad := post.InvariantProblems(); len(bad) > 0 {
			c.Disagree(fmt.Sprintf("%s/Linux|%s|%s|public-invariant:%s", fsType, kind, fsx.ErrClass(err), firstWords(bad[0])), fmt.Sprintf("%s: after %v the tree is not well formed: %v", fsType, hist, bad[:min3(4, len(bad))]), replay())
			return
		}
		if bad := chk.VerifCheck(); len(bad) > 0 {
			c.Disagree(fmt.Sprintf("%s/Linux|%s|%s|internal-invariant:%s", fsType, kind, fsx.ErrClass(err), firstWords(bad[0])), fmt.Sprintf("%s: after %v the internal structure is inconsistent: %v", fsType, hist, bad[:min3(4, len(bad))]), replay())
			return
		}
		// every directory of the bookkeeping that should exist is reachable, with its file
		for _, d := range dirs {
			if _, e1 := v.Lstat(d); e1 == nil {
				if es, e2 := v.ReadDir(d); e2 != nil {
					c.Disagree(fmt.Sprintf("%s/Linux|%s|listed-but-unreadable", fsType, kind), fmt.Sprintf("%s: after %v Lstat(%q) succeeds but ReadDir fails: %v", fsType, hist, d, e2), replay())
					return
				} else {
					for _, e := range es {
						if _, e3 := v.Lstat(d + "/" + e.Name()); e3 != nil {
							c.Disagree(fmt.Sprintf("%s/Linux|%s|listed-but-missing", fsType, kind), fmt.Sprintf("%s: after %v ReadDir(%q) lists %q but Lstat of it fails: %v", fsType, hist, d, e.Name(), e3), replay())
							return
						}
					}
				}
			}
		}
	}
	c.Rep.Count("complete_repeated_segment_histories", 1)
}

func firstWords(s string) string {
	f := strings.Fields(s)
	var out []string
	for _, w := range f {
		if strings.ContainsAny(w, "/\\0123456789") {
			continue
		}
		out = append(out, w)
		if len(out) == 5 {
			break
		}
	}
	return strings.Join(out, "-")
}

// c05Partial drives composite calls that fail half-way on permissions: a tree built by a non-administrator with hard
// links leading out of it, some non-empty directories then protected by the administrator, then RemoveAll / MkdirAll /
// Rename / Remove issued by the owner. The calls may fail and may leave a partial effect; the tree must stay well formed.
//
// With returnsOnly (C07) the verdict is about termination only: the call itself and a probe of every directory afterwards
// (Stat, ReadDir, Chmod to its own mode, as the administrator) must return.
func c05Partial(c *rt.Ctx, h int, returnsOnly bool) {
	r := c.Rand(fmt.Sprintf("c05-partial-%d", h))
	v, users := newMemWithUsers()
	root, u1 := users[0], users[1]
	env := fsx.NewEnv(v)
	var hist []string
	replay := func() any { return map[string]any{"fs": "MemFS", "history": hist} }
	do := func(u avfs.UserReader, o fsx.Op) fsx.Res {
		_ = v.SetUser(u)
		res := env.Exec(o)
		_ = v.SetUser(root)
		hist = append(hist, fmt.Sprintf("as %s: %s -> %s", u.Name(), o, res.Err))
		return res
	}
	do(root, fsx.Op{K: "Mkdir", P: "/w", Perm: 0o777})
	do(root, fsx.Op{K: "Chmod", P: "/w", Perm: 0o777})
	do(u1, fsx.Op{K: "Mkdir", P: "/w/keep", Perm: 0o755})
	do(u1, fsx.Op{K: "Mkdir", P: "/w/t", Perm: 0o755})
	dirs := []string{"/w/t"}
	var files []string
	names := []string{"a", "b", "c", "d", "e"}
	for i := 0; i < 4+r.IntN(10); i++ {
		d := dirs[r.IntN(len(dirs))]
		p := d + "/" + names[r.IntN(len(names))]
		if r.IntN(3) == 0 && strings.Count(p, "/") < 6 {
			if do(u1, fsx.Op{K: "Mkdir", P: p, Perm: 0o755}).Err == "ok" {
				dirs = append(dirs, p)
			}
		} else if do(u1, fsx.Op{K: "WriteFile", P: p, Data: fmt.Sprintf("<%d>", i), Perm: 0o644}).Err == "ok" {
			files = append(files, p)
		}
	}
	for i, f := range files {
		if r.IntN(2) == 0 {
			do(u1, fsx.Op{K: "Link", P: f, Q: fmt.Sprintf("/w/keep/k%d", i)})
		}
	}
	for i := 0; i < 1+r.IntN(3); i++ {
		d := dirs[r.IntN(len(dirs))]
		if r.IntN(2) == 0 {
			do(root, fsx.Op{K: "Chown", P: d, N: 0, M: 0})
		}
		do(root, fsx.Op{K: "Chmod", P: d, Perm: []uint32{0o700, 0o555, 0o000, 0o300, 0o500, 0o755}[r.IntN(6)]})
	}
	for step := 0; step < 4; step++ {
		d := dirs[r.IntN(len(dirs))]
		var o fsx.Op
		switch r.IntN(6) {
		case 0, 1:
			o = fsx.Op{K: "RemoveAll", P: d}
		case 2:
			o = fsx.Op{K: "RemoveAll", P: "/w/t"}
		case 3:
			o = fsx.Op{K: "MkdirAll", P: d + "/x/y/z", Perm: 0o755}
		case 4:
			o = fsx.Op{K: "Rename", P: d, Q: dirs[r.IntN(len(dirs))] + "/moved"}
		default:
			o = fsx.Op{K: "Remove", P: d}
		}
		res := do(u1, o)
		c.Rep.Case(fmt.Sprintf("MemFS/partial|%s@user|%s", o.K, res.Err), true)
		if returnsOnly {
			if fatalRes(res) {
				c.Disagree(fmt.Sprintf("MemFS/partial|%s@user|%s", o.K, res.Err), fmt.Sprintf("MemFS: %s does not return normally: %s", hist[len(hist)-1], res.Raw), replay())
				return
			}
			for _, d := range dirs {
				for _, po := range []fsx.Op{{K: "Stat", P: d}, {K: "ReadDir", P: d}, {K: "Lstat", P: d + "/a"}} {
					if pr := do(root, po); fatalRes(pr) {
						c.Disagree(fmt.Sprintf("MemFS/partial|%s@user|%s|then %s|%s", o.K, res.Err, po.K, pr.Err), fmt.Sprintf("MemFS: after %s, %s does not return normally: %s", hist[len(hist)-2], po, pr.Raw), replay())
						return
					}
				}
			}
			continue
		}
		if fatalRes(res) {
			return // C07's business
		}
		// C07's business as well: a lock left behind by the failed call would stop the walk of the snapshot
		for _, d := range dirs {
			if pr := do(root, fsx.Op{K: "ReadDir", P: d}); fatalRes(pr) {
				c.Rep.Count("histories_ended_by_panic_or_deadlock", 1)
				return
			}
		}
		post := fsx.Snap(v, "/", fsx.SnapOpts{SymSize: true})
		if bad := post.InvariantProblems(); len(bad) > 0 {
			c.Disagree(fmt.Sprintf("MemFS/partial|%s|%s|public-invariant:%s", o.K, res.Err, firstWords(bad[0])), fmt.Sprintf("MemFS: after %s the tree is not well formed: %v", hist[len(hist)-1], bad[:min3(4, len(bad))]), replay())
			return
		}
		if bad := v.VerifCheck(); len(bad) > 0 {
			c.Disagree(fmt.Sprintf("MemFS/partial|%s|%s|internal-invariant:%s", o.K, res.Err, firstWords(bad[0])), fmt.Sprintf("MemFS: after %s the internal structure is inconsistent: %v", hist[len(hist)-1], bad[:min3(4, len(bad))]), replay())
			return
		}
	}
	c.Rep.Count("complete_partial_failure_scenarios", 1)
}

func init() {
	register(&Check{
		Prop:   "C05",
		Shards: shards(12, 16),
		Meta: func(tier string) rt.Meta {
			return rt.Meta{Level: "exploration", MinEvals: 5000, MinDistinct: 100,
				Rule:        "sequential histories of 200-300 calls from the C01 templates with aliasing bias and INVALID operands left in (root, '.', '..', empty path, source an ancestor/descendant of the destination, identical operands, multiply-linked destinations, missing parents, wrong types, unclean spellings, open handles), on MemFS and OrefaFS, Linux- and Windows-typed (-tags avfs_setostype); in half of the Linux-typed MemFS histories a third of the calls are issued by a non-administrator (SetUser) so that calls fail half-way on permissions, the monitors looking at the tree as the administrator; one MemFS call in five is issued through a fresh Sub view of the root. After EVERY call: (1) public-API checker - bounded walk terminates, listing sorted and duplicate-free, listed <=> Lstat succeeds, Nlink of every regular file == number of SameFile paths, all those paths agree on content/size/mode/owner; (2) internal checker through the verif hook (MemFS: one parent edge per directory, no cycle, stored link counter == number of entries, no entry to a deleted node; OrefaFS: path index == reachable paths, no orphan); (3) frame monitor - a failed call (RemoveAll and composites excepted) leaves the snapshot unchanged, a successful call changes only paths in a footprint computed in the pre-state (named paths, what they resolve to through links, descendants, other hard links of named files, new temp names). Plus partial-failure scenarios: a tree built by a non-administrator with hard links leading out of it, non-empty directories then protected by the administrator, then RemoveAll/MkdirAll/Rename/Remove by the owner - the calls may fail half-way, monitors (1) and (2) after each. Plus histories over three volumes of a Windows-typed MemFS (VolumeAdd/VolumeDelete, links and renames across volumes; link count == SameFile paths over all volumes; internal checker). Plus trees whose paths repeat themselves (/a/x/a/y, /w/a/k/w/a/y) under renames and removals. VolumeAdd names the volume by its bare name or by a path on it. Signature = fs/os | call kind | outcome; non-trivial = not the first call.",
				Assumptions: []string{"directory link counts are not checked (the statement speaks of regular files)", "composite helpers (WriteFile, MkdirAll, OpenFile+Write+Close, temp creation) may legitimately leave a partial effect when they fail"}}
		},
		Run: func(c *rt.Ctx) {
			hook.Sequential()
			if avfs.BuildFeatures()&avfs.FeatSetOSType == 0 {
				c.Rep.Inconclusive = append(c.Rep.Inconclusive, "harness built without the avfs_setostype tag")
				return
			}
			n := c.Pick(1500, 30000)
			for h := 0; h < n; h++ {
				if h%c.NShards != c.Shard {
					continue
				}
				fsType := []string{"MemFS", "OrefaFS"}[h%2]
				osType := []avfs.OSType{avfs.OsLinux, avfs.OsLinux, avfs.OsWindows}[(h/2)%3]
				c05History(c, fsType, osType, h)
			}
			for h := 0; h < c.Pick(3000, 60000); h++ {
				if h%c.NShards == c.Shard {
					c05Partial(c, h, false)
				}
			}
			for h := 0; h < c.Pick(600, 12000); h++ {
				if h%c.NShards == c.Shard {
					c05Volumes(c, h)
				}
			}
			for h := 0; h < c.Pick(1200, 24000); h++ {
				if h%c.NShards == c.Shard {
					c05Repeats(c, []string{"MemFS", "OrefaFS"}[h%2], h)
				}
			}
		},
	})
}
