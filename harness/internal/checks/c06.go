package checks

import (
	"fmt"
	"os"
	"sort"
	"strings"
	"sync"
	"syscall"

	"github.com/avfs/avfs"
	"github.com/avfs/avfs/vfs/memfs"

	"verif/internal/fsx"
	"verif/internal/hook"
	"verif/internal/rt"
	"verif/internal/sched"
)

// c06Trees are the initial trees of the concurrent programs.
func c06Trees(fsType string) [][]fsx.Op {
	w := []fsx.Op{{K: "Mkdir", P: "/w", Perm: 0o755}, {K: "Mkdir", P: "/w/d", Perm: 0o755}}
	t := [][]fsx.Op{
		w,
		append(append([]fsx.Op{}, w...), fsx.Op{K: "WriteFile", P: "/w/a", Data: "AAAA", Perm: 0o644}),
		append(append([]fsx.Op{}, w...), fsx.Op{K: "WriteFile", P: "/w/a", Data: "AAAA", Perm: 0o644}, fsx.Op{K: "WriteFile", P: "/w/b", Data: "BB", Perm: 0o644}),
		append(append([]fsx.Op{}, w...), fsx.Op{K: "Mkdir", P: "/w/a", Perm: 0o755}, fsx.Op{K: "WriteFile", P: "/w/b", Data: "BB", Perm: 0o644}, fsx.Op{K: "Link", P: "/w/b", Q: "/w/d/a"}),
	}
	// every tree also holds a file as large as the initial buffer of ReadFile (512 bytes)
	for i := range t {
		t[i] = append(t[i], fsx.Op{K: "WriteFile", P: "/w/big", Data: strings.Repeat("B", 512), Perm: 0o644})
	}
	return t
}

// c06Calls are the primitive mutating calls on the overlapping names.
func c06Calls(fsType string) []fsx.Op {
	names := []string{"/w/a", "/w/b", "/w/d/a"}
	var ops []fsx.Op
	for _, n := range names {
		ops = append(ops,
			fsx.Op{K: "OpenWriteClose", P: n, Flag: syscall.O_WRONLY | syscall.O_CREAT | syscall.O_EXCL, Perm: 0o644},
			fsx.Op{K: "OpenWriteClose", P: n, Flag: syscall.O_RDWR | syscall.O_CREAT | syscall.O_TRUNC, Perm: 0o644},
			// creation without a write access mode (the lock-file idiom): still a mutation of the directory
			fsx.Op{K: "OpenWriteClose", P: n, Flag: syscall.O_RDONLY | syscall.O_CREAT | syscall.O_EXCL, Perm: 0o644},
			fsx.Op{K: "Mkdir", P: n, Perm: 0o755},
			fsx.Op{K: "Remove", P: n},
			fsx.Op{K: "Truncate", P: n, N: 1},
			fsx.Op{K: "Chmod", P: n, Perm: 0o600},
		)
	}
	ops = append(ops, fsx.Op{K: "MkdirAll", P: "/w/a/x", Perm: 0o755}, fsx.Op{K: "MkdirAll", P: "/w/d/a", Perm: 0o755}, fsx.Op{K: "RemoveAll", P: "/w/a"}, fsx.Op{K: "RemoveAll", P: "/w/d"},
		fsx.Op{K: "Remove", P: "/w/d"})
	for _, p := range [][2]string{{"/w/a", "/w/b"}, {"/w/b", "/w/a"}, {"/w/a", "/w/d/a"}, {"/w/d/a", "/w/a"}, {"/w/b", "/w/d/a"}, {"/w/d", "/w/a"}, {"/w/a", "/w/d/x"}} {
		ops = append(ops, fsx.Op{K: "Rename", P: p[0], Q: p[1]}, fsx.Op{K: "Link", P: p[0], Q: p[1]})
	}
	if fsType == "MemFS" {
		ops = append(ops, fsx.Op{K: "Symlink", P: "b", Q: "/w/a"}, fsx.Op{K: "Symlink", P: "/w/b", Q: "/w/a"}, fsx.Op{K: "Symlink", P: "a", Q: "/w/d/a"}, fsx.Op{K: "Symlink", P: "x", Q: "/w/b"})
	}
	return ops
}

type c06Instance struct {
	root  avfs.VFS
	chk   verifChecker
	views []avfs.VFS
}

// c06ViewDirs, when set by a dedicated program, gives the directory of the Sub view of each MemFS worker ("" or absent:
// the root). A worker process runs one program at a time.
var c06ViewDirs []string

func c06NewInstance(fsType string, tree []fsx.Op, nw int) *c06Instance {
	v, raw := newEmu(fsType)
	in := &c06Instance{root: v, chk: raw.(verifChecker)}
	e := fsx.NewEnv(v)
	for _, o := range tree {
		e.Exec(o)
	}
	for w := 0; w < nw; w++ {
		if fsType == "MemFS" {
			dir := "/"
			if w < len(c06ViewDirs) && c06ViewDirs[w] != "" {
				dir = c06ViewDirs[w]
			}
			s, err := v.(*memfs.MemFS).Sub(dir)
			if err != nil {
				s = v
			}
			in.views = append(in.views, s)
		} else {
			in.views = append(in.views, v)
		}
	}
	return in
}

type c06Event struct {
	w, i      int
	call, ret int64
	res       string
	raw       string
}

// outcome of an execution: per-call results in program order + final snapshot
func c06Key(results [][]string, snap string) string {
	var p []string
	for _, r := range results {
		p = append(p, strings.Join(r, ","))
	}
	return strings.Join(p, ";") + "#" + snap
}

// c06Sequential enumerates the merges of the programs that respect program order and the observed real-time precedence,
// runs each on a fresh instance and returns the set of outcomes.
func c06Sequential(fsType string, tree []fsx.Op, progs [][]fsx.Op, prec func(a, b [2]int) bool) map[string]bool {
	out := map[string]bool{}
	idx := make([]int, len(progs))
	var order [][2]int
	total := 0
	for _, p := range progs {
		total += len(p)
	}
	var rec func()
	rec = func() {
		if len(order) == total {
			in := c06NewInstance(fsType, tree, len(progs))
			results := make([][]string, len(progs))
			envs := make([]*fsx.Env, len(progs))
			for w := range progs {
				envs[w] = fsx.NewEnv(in.views[w])
			}
			for _, wi := range order {
				r := envs[wi[0]].Exec(progs[wi[0]][wi[1]])
				results[wi[0]] = append(results[wi[0]], r.Err)
			}
			out[c06Key(results, fsx.Snap(in.root, "/", fsx.SnapOpts{SymSize: true}).String())] = true
			return
		}
		for w := range progs {
			if idx[w] >= len(progs[w]) {
				continue
			}
			cand := [2]int{w, idx[w]}
			// cand may come next only if no still-unscheduled call must precede it in real time
			ok := true
			for w2 := range progs {
				for j := idx[w2]; j < len(progs[w2]); j++ {
					if (w2 != w || j != idx[w]) && prec([2]int{w2, j}, cand) {
						ok = false
					}
				}
			}
			if !ok {
				continue
			}
			order = append(order, cand)
			idx[w]++
			rec()
			idx[w]--
			order = order[:len(order)-1]
		}
	}
	rec()
	return out
}

type c06Stats struct {
	inter map[uint64]bool
}

func progKinds(progs [][]fsx.Op) string {
	var k []string
	for _, p := range progs {
		for _, o := range p {
			k = append(k, o.K)
		}
	}
	sort.Strings(k)
	return strings.Join(k, "+")
}

func progText(progs [][]fsx.Op) []string {
	var out []string
	for w, p := range progs {
		out = append(out, fmt.Sprintf("w%d: %s", w, strings.Join(opStrings(p), "; ")))
	}
	return out
}

// c06Program explores the schedules of one program and judges every execution.
func c06Program(c *rt.Ctx, fsType string, treeNo int, tree []fsx.Op, progs [][]fsx.Op, maxPreempt, maxRuns, randomRuns int, st *c06Stats, r interface{ IntN(int) int }) {
	memo := map[string]bool{} // outcome key -> linearizable
	// with no real-time constraint every merge is allowed: computed once, used as a fast path
	anyOrder := c06Sequential(fsType, tree, progs, func(a, b [2]int) bool { return false })
	judge := func(e *sched.Exec, in *c06Instance, evs []c06Event, v sched.Verdict, desc string) {
		st.inter[e.InterleavingHash()] = true
		c.Rep.Count("schedules", 1)
		if int64(e.MaxInCallSwitches) > c.Rep.Counters["max_context_switches_inside_calls"] {
			c.Rep.Counters["max_context_switches_inside_calls"] = int64(e.MaxInCallSwitches)
		}
		kinds := progKinds(progs)
		sigBase := fmt.Sprintf("%s|%s", fsType, kinds)
		choices := func() []int {
			var ch []int
			for _, d := range e.Trace {
				ch = append(ch, d.Chosen)
			}
			return ch
		}
		replay := func(extra map[string]any) any {
			extra["fs"] = fsType
			extra["initial_tree"] = opStrings(tree)
			extra["programs"] = progText(progs)
			extra["schedule"] = choices()
			return extra
		}
		c.Rep.Case(fmt.Sprintf("%s|tree%d|switches=%d", sigBase, treeNo, min3(e.Switches, 5)), e.Switches > 0)
		if v == sched.Deadlock {
			c.Rep.Count("deadlocked_schedules", 1)
			if c07OnlyReturns || os.Getenv("VERIF_C06_DEADLOCKS") != "" {
				c.Disagree(sigBase+"|deadlock", fmt.Sprintf("%s: a schedule of %v ends with every unfinished goroutine waiting for a lock: %s", fsType, progText(progs), desc), replay(map[string]any{"verdict": "deadlock", "who_waits": desc}))
			}
			return
		}
		if v != sched.Completed {
			if c07OnlyReturns {
				c.Disagree(sigBase+"|runaway", fmt.Sprintf("%s: a schedule of %v does not terminate: %s", fsType, progText(progs), desc), replay(map[string]any{"verdict": "runaway"}))
			} else {
				c.Rep.Inconclusive = append(c.Rep.Inconclusive, "runaway execution: "+desc)
			}
			return
		}
		results := make([][]string, len(progs))
		for w := range progs {
			results[w] = make([]string, len(progs[w]))
		}
		panicked := false
		for _, ev := range evs {
			results[ev.w][ev.i] = ev.res
			if ev.res == "panic" || ev.res == "deadlock" {
				panicked = true
				results[ev.w][ev.i] = ev.res + "(" + ev.raw + ")"
			}
		}
		if panicked {
			c.Rep.Count("schedules_with_panic", 1)
			if c07OnlyReturns {
				c.Disagree(sigBase+"|panic", fmt.Sprintf("%s: a call panics in a schedule of %v: results %v", fsType, progText(progs), results), replay(map[string]any{"verdict": "panic", "results": results}))
			}
			return
		}
		if c07OnlyReturns {
			return
		}
		snap := fsx.Snap(in.root, "/", fsx.SnapOpts{SymSize: true})
		// C05 invariants at the end of every schedule
		if bad := snap.InvariantProblems(); len(bad) > 0 {
			c.Disagree(sigBase+"|public-invariant:"+firstWords(bad[0]), fmt.Sprintf("%s: after a concurrent execution of %v the tree is not well formed: %v", fsType, progText(progs), bad[:min3(3, len(bad))]), replay(map[string]any{"results": results}))
			return
		}
		if bad := in.chk.VerifCheck(); len(bad) > 0 {
			c.Disagree(sigBase+"|internal-invariant:"+firstWords(bad[0]), fmt.Sprintf("%s: after a concurrent execution of %v the internal structure is inconsistent: %v", fsType, progText(progs), bad[:min3(3, len(bad))]), replay(map[string]any{"results": results}))
			return
		}
		key := c06Key(results, snap.String())
		if anyOrder[key] {
			// some merge gives this outcome; is there one that also respects the observed real-time order?
			overlapAll := true
			for _, a := range evs {
				for _, b := range evs {
					if a.w != b.w && a.ret < b.call {
						overlapAll = false
					}
				}
			}
			if overlapAll {
				return
			}
		}
		mk := key + fmt.Sprint(precSig(evs))
		if lin, ok := memo[mk]; ok {
			if lin {
				return
			}
		} else {
			prec := func(a, b [2]int) bool {
				var ea, eb *c06Event
				for i := range evs {
					if evs[i].w == a[0] && evs[i].i == a[1] {
						ea = &evs[i]
					}
					if evs[i].w == b[0] && evs[i].i == b[1] {
						eb = &evs[i]
					}
				}
				return ea != nil && eb != nil && ea.ret < eb.call
			}
			seq := c06Sequential(fsType, tree, progs, prec)
			c.Rep.Count("sequential_reference_enumerations", 1)
			memo[mk] = seq[key]
			if seq[key] {
				return
			}
		}
		var hs []string
		sort.Slice(evs, func(i, j int) bool { return evs[i].call < evs[j].call })
		for _, ev := range evs {
			hs = append(hs, fmt.Sprintf("[%d,%d] w%d %s -> %s", ev.call, ev.ret, ev.w, progs[ev.w][ev.i], ev.res))
		}
		c.Disagree(sigBase+"|not-linearizable", fmt.Sprintf("%s: the results and final tree of a concurrent execution of %v equal those of no sequential order of the same calls: %v", fsType, progText(progs), hs),
			replay(map[string]any{"history": hs, "final_tree": snap.Lines(false)}))
	}
	runOne := func(choose func(e *sched.Exec, enabled []int) int) *sched.Exec {
		in := c06NewInstance(fsType, tree, len(progs))
		var e *sched.Exec
		evs := make([][]c06Event, len(progs))
		bodies := make([]func(int), len(progs))
		for w := range progs {
			w := w
			env := fsx.NewEnv(in.views[w])
			bodies[w] = func(int) {
				for i, o := range progs[w] {
					e.Boundary()
					call := e.Clock
					r := env.Exec(o)
					evs[w] = append(evs[w], c06Event{w: w, i: i, call: call, ret: e.Clock, res: r.Err, raw: r.Raw})
				}
			}
		}
		e = sched.New(bodies, choose)
		v, desc := e.Run()
		var all []c06Event
		for _, x := range evs {
			all = append(all, x...)
		}
		judge(e, in, all, v, desc)
		return e
	}
	n, exhausted := sched.Explore(maxPreempt, maxRuns, func(p []int) *sched.Exec { return runOne(sched.Prefix(p)) })
	_ = n
	if exhausted {
		c.Rep.Count("programs_with_schedule_space_exhausted", 1)
	}
	for k := 0; k < randomRuns; k++ {
		runOne(sched.Random(r.IntN, 6))
	}
	c.Rep.Count("programs", 1)
}

func precSig(evs []c06Event) []string {
	var out []string
	for _, a := range evs {
		for _, b := range evs {
			if a.w != b.w && a.ret < b.call {
				out = append(out, fmt.Sprintf("%d.%d<%d.%d", a.w, a.i, b.w, b.i))
			}
		}
	}
	sort.Strings(out)
	return out
}

// c06Temps: concurrent CreateTemp/MkdirTemp never hand the same name to two callers.
func c06Temps(c *rt.Ctx, fsType string, st *c06Stats, r interface{ IntN(int) int }, runs int) {
	for k := 0; k < runs; k++ {
		in := c06NewInstance(fsType, []fsx.Op{{K: "Mkdir", P: "/w", Perm: 0o777}}, 3)
		var e *sched.Exec
		names := make([][]string, 3)
		bodies := make([]func(int), 3)
		for w := 0; w < 3; w++ {
			w := w
			env := fsx.NewEnv(in.views[w])
			bodies[w] = func(int) {
				for i := 0; i < 2; i++ {
					e.Boundary()
					kind := []string{"CreateTemp", "MkdirTemp"}[(w+i)%2]
					res := env.Exec(fsx.Op{K: kind, P: "/w", Q: "t*", H: i})
					if res.Err == "ok" {
						names[w] = append(names[w], kind+":"+env.Temps[len(env.Temps)-1])
					}
				}
			}
		}
		e = sched.New(bodies, sched.Random(r.IntN, 6))
		v, _ := e.Run()
		st.inter[e.InterleavingHash()] = true
		c.Rep.Case(fmt.Sprintf("%s|temps|switches=%d", fsType, min3(e.Switches, 5)), e.Switches > 0)
		if v != sched.Completed {
			continue
		}
		seen := map[string]string{}
		for w := range names {
			for _, n := range names[w] {
				base := n[strings.Index(n, ":")+1:]
				if prev, dup := seen[base]; dup {
					c.Disagree(fsType+"|temps|same-name-twice", fmt.Sprintf("%s: concurrent temp creations handed out %s twice (%s and %s)", fsType, base, prev, n), nil)
				}
				seen[base] = n
			}
		}
		es, _ := in.root.ReadDir("/w")
		if len(es) != len(seen) {
			c.Disagree(fsType+"|temps|count-mismatch", fmt.Sprintf("%s: %d temp names were handed out but /w lists %d entries", fsType, len(seen), len(es)), nil)
		}
	}
}

// c06TempsMany: the names CreateTemp hands out come from a 32-bit random suffix, so two calls draw the same name once a
// directory holds some 10^5 temp files; the call must then notice that the name is taken and draw another. Eight
// free-running goroutines (own Sub views of one MemFS, or sharing one OrefaFS) create total files in one directory,
// each writes its own tag into its file; afterwards no name was handed out twice, the directory has one entry per
// call and every file still holds the tag of the call that got its name (exactly-once over names).
func c06TempsMany(c *rt.Ctx, fsType string, total int) {
	hook.Set(nil)
	defer sched.Install()
	const workers = 8
	in := c06NewInstance(fsType, []fsx.Op{{K: "Mkdir", P: "/w", Perm: 0o777}}, workers)
	type made struct {
		name string
		tag  string
	}
	out := make([][]made, workers)
	errs := make([]string, workers)
	var wg sync.WaitGroup
	for w := 0; w < workers; w++ {
		wg.Add(1)
		go func(w int) {
			defer wg.Done()
			defer func() {
				if p := recover(); p != nil {
					errs[w] = fmt.Sprint("panic: ", p)
				}
			}()
			v := in.views[w]
			for i := 0; i < total/workers; i++ {
				f, err := v.CreateTemp("/w", "t*")
				if err != nil {
					errs[w] = err.Error()
					return
				}
				tag := fmt.Sprintf("w%d-%d", w, i)
				_, _ = f.Write([]byte(tag))
				out[w] = append(out[w], made{f.Name(), tag})
				_ = f.Close()
			}
		}(w)
	}
	wg.Wait()
	for w, e := range errs {
		if e != "" {
			c.Disagree(fsType+"|temps-many|call-failed", fmt.Sprintf("%s: CreateTemp(\"/w\",\"t*\") of worker %d failed: %s", fsType, w, e), nil)
			return
		}
	}
	owner := map[string]string{}
	dups := 0
	first := ""
	n := 0
	for w := range out {
		for _, m := range out[w] {
			n++
			if prev, dup := owner[m.name]; dup {
				dups++
				if first == "" {
					first = fmt.Sprintf("%s handed to %s and to %s", m.name, prev, m.tag)
				}
			}
			owner[m.name] = m.tag
		}
	}
	c.Rep.Count("temp_names_handed_out_free_running", int64(n))
	c.Rep.Case(fmt.Sprintf("%s|temps-many|%d-names", fsType, n), true)
	if dups > 0 {
		c.Disagree(fsType+"|temps-many|same-name-twice", fmt.Sprintf("%s: of %d concurrent CreateTemp calls in one directory, %d were handed a name already handed out (%s)", fsType, n, dups, first), map[string]any{"fs": fsType, "calls": n, "workers": workers})
		return
	}
	es, err := in.root.ReadDir("/w")
	if err != nil || len(es) != n {
		c.Disagree(fsType+"|temps-many|count-mismatch", fmt.Sprintf("%s: %d temp names were handed out but /w lists %d entries (%v)", fsType, n, len(es), err), nil)
		return
	}
	bad := 0
	for name, tag := range owner {
		if b, err := in.root.ReadFile(name); err != nil || string(b) != tag {
			bad++
			if first == "" {
				first = fmt.Sprintf("%s holds %q, its creator wrote %q (%v)", name, b, tag, err)
			}
		}
	}
	if bad > 0 {
		c.Disagree(fsType+"|temps-many|content-lost", fmt.Sprintf("%s: %d of %d temp files do not hold what their creator wrote (%s)", fsType, bad, n, first), nil)
	}
}

// c06Dedicated runs the dedicated programs (calls made of several walks against entries that come and go; directory
// moves whose locked directories form a cycle). C06 judges their results; C07 runs the very same programs for its
// "every worker returns" verdict - a deadlock seen here and nowhere reported is how the four-directory Rename deadlock
// went unnoticed for two rounds.
func c06Dedicated(c *rt.Ctx, fsType string, trees [][]fsx.Op, idx *int, st *c06Stats, r interface{ IntN(int) int }) {
	// fixed three-worker programs: calls made of several walks (MkdirAll's check for broken links, Rename's two
	// walks) against symbolic links and directories that come, go and move meanwhile
	if fsType == "MemFS" {
		fixed := [][][]fsx.Op{
			{{{K: "MkdirAll", P: "/w/a/x", Perm: 0o755}}, {{K: "OpenWriteClose", P: "/w/b", Flag: syscall.O_RDWR | syscall.O_CREAT | syscall.O_TRUNC, Perm: 0o644}, {K: "Remove", P: "/w/a"}}, {{K: "Symlink", P: "b", Q: "/w/a"}}},
			{{{K: "MkdirAll", P: "/w/d/a", Perm: 0o755}}, {{K: "Symlink", P: "a", Q: "/w/d/a"}, {K: "Rename", P: "/w/a", Q: "/w/d/x"}}, {{K: "Rename", P: "/w/d", Q: "/w/a"}}},
			{{{K: "MkdirAll", P: "/w/a/x", Perm: 0o755}}, {{K: "Symlink", P: "zz", Q: "/w/a"}}, {{K: "Remove", P: "/w/a"}}},
			{{{K: "MkdirAll", P: "/w/a/x/y", Perm: 0o755}}, {{K: "Symlink", P: "d", Q: "/w/a"}, {K: "Remove", P: "/w/a"}}, {{K: "Rename", P: "/w/d", Q: "/w/e"}}},
			{{{K: "Link", P: "/w/a", Q: "/w/d/l"}}, {{K: "Symlink", P: "b", Q: "/w/a"}, {K: "Remove", P: "/w/a"}}, {{K: "Rename", P: "/w/d", Q: "/w/e"}}},
			// the target of the link comes and goes again between the walks of MkdirAll (thorough seed 2, round 6)
			{{{K: "MkdirAll", P: "/w/a/x", Perm: 0o755}}, {{K: "OpenWriteClose", P: "/w/b", Flag: syscall.O_WRONLY | syscall.O_CREAT | syscall.O_EXCL, Perm: 0o644}, {K: "Remove", P: "/w/b"}}, {{K: "Symlink", P: "/w/b", Q: "/w/a"}}},
			{{{K: "MkdirAll", P: "/w/a/x", Perm: 0o755}}, {{K: "Mkdir", P: "/w/d/c", Perm: 0o755}, {K: "Remove", P: "/w/d/c"}}, {{K: "Symlink", P: "/w/d/c", Q: "/w/a"}}},
			// a query whose walk is overtaken by a move of the directory it is in and a creation at the new place: the
			// answer "exists" under the old path is the answer of no order
			{{{K: "Lstat", P: "/w/d/x"}}, {{K: "Rename", P: "/w/d", Q: "/w/e"}, {K: "Mkdir", P: "/w/e/x", Perm: 0o755}}},
			{{{K: "Mkdir", P: "/w/d/x", Perm: 0o755}}, {{K: "Rename", P: "/w/d", Q: "/w/e"}, {K: "OpenWriteClose", P: "/w/e/x", Flag: syscall.O_WRONLY | syscall.O_CREAT | syscall.O_EXCL, Perm: 0o644}}},
			{{{K: "Stat", P: "/w/d/x"}, {K: "Readlink", P: "/w/d/x"}}, {{K: "Rename", P: "/w/d", Q: "/w/e"}, {K: "Symlink", P: "zz", Q: "/w/e/x"}}, {{K: "Chdir", P: "/w/d/x"}}},
		}
		for _, progs := range fixed {
			for ti, tree := range trees {
				*idx++
				if *idx%c.NShards != c.Shard {
					continue
				}
				c06Program(c, fsType, ti, tree, progs, c.Pick(2, 3), c.Pick(600, 4000), c.Pick(20, 60), st, r)
			}
		}
	}
	// a view rooted at a directory that the parent removes, moves or replaces while the view creates in its root: the
	// root of a view is an ordinary directory (worker 0 acts through Sub("/w/d"), the others through the root)
	if fsType == "MemFS" {
		tree := []fsx.Op{{K: "Mkdir", P: "/w", Perm: 0o755}, {K: "Mkdir", P: "/w/d", Perm: 0o755}}
		c06ViewDirs = []string{"/w/d"}
		for _, create := range []fsx.Op{{K: "Mkdir", P: "/x", Perm: 0o755}, {K: "OpenWriteClose", P: "/x", Flag: syscall.O_WRONLY | syscall.O_CREAT | syscall.O_EXCL, Perm: 0o644}, {K: "Symlink", P: "zz", Q: "/x"}, {K: "MkdirAll", P: "/x/y", Perm: 0o755}} {
			for _, other := range [][]fsx.Op{{{K: "Remove", P: "/w/d"}}, {{K: "RemoveAll", P: "/w/d"}}, {{K: "Rename", P: "/w/d", Q: "/w/e"}}, {{K: "Remove", P: "/w/d"}, {K: "Mkdir", P: "/w/d", Perm: 0o700}}} {
				*idx++
				if *idx%c.NShards != c.Shard {
					continue
				}
				c06Program(c, fsType, 8, tree, [][]fsx.Op{{create, {K: "Lstat", P: "/x"}}, other}, 3, c.Pick(400, 3000), c.Pick(20, 60), st, r)
			}
		}
		c06ViewDirs = nil
	}
	// two directory moves with disjoint pairs of locked directories, each moving a directory below the one the
	// other moves: a cycle detached from the root if both get through (plus a third worker looking on)
	{
		tree := []fsx.Op{{K: "Mkdir", P: "/w", Perm: 0o755}, {K: "Mkdir", P: "/w/a", Perm: 0o755}, {K: "Mkdir", P: "/w/a/b", Perm: 0o755}, {K: "Mkdir", P: "/w/c", Perm: 0o755}, {K: "Mkdir", P: "/w/c/e", Perm: 0o755}, {K: "WriteFile", P: "/w/a/b/m", Data: "m", Perm: 0o644}}
		for _, progs := range [][][]fsx.Op{
			{{{K: "Rename", P: "/w/a/b", Q: "/w/c/b"}}, {{K: "Rename", P: "/w/c", Q: "/w/a/b/c"}}},
			{{{K: "Rename", P: "/w/a/b", Q: "/w/c/b"}}, {{K: "Rename", P: "/w/c", Q: "/w/a/b/c"}}, {{K: "ReadDir", P: "/w"}, {K: "Stat", P: "/w/a/b/m"}}},
			{{{K: "Rename", P: "/w/a", Q: "/w/c/a"}}, {{K: "Rename", P: "/w/c", Q: "/w/a/b/c"}}},
			// four directories: each rename moves a directory below the directory the other one moves
			{{{K: "Rename", P: "/w/a/b", Q: "/w/c/e/b"}}, {{K: "Rename", P: "/w/c/e", Q: "/w/a/b/e"}}},
			{{{K: "Rename", P: "/w/a/b", Q: "/w/c/e/b"}}, {{K: "Rename", P: "/w/c/e", Q: "/w/a/b/e"}}, {{K: "ReadDir", P: "/w/a"}, {K: "ReadDir", P: "/w/c"}}},
		} {
			*idx++
			if *idx%c.NShards != c.Shard {
				continue
			}
			c06Program(c, fsType, 9, tree, progs, 3, c.Pick(3000, 12000), c.Pick(40, 120), st, r)
		}
	}
}

func init() {
	register(&Check{
		Prop:   "C06",
		Shards: shards(14, 16),
		Meta: func(tier string) rt.Meta {
			return rt.Meta{Level: "exploration", MinEvals: 5000, MinDistinct: 50,
				Rule:        "programs of 2 workers x 1 call (all ordered pairs of ~45 primitive mutating calls on 3 overlapping names, from 4 initial trees; quick: a seed-dependent sample), 2 workers x 2 calls and 3 workers x 1-2 calls (random), each worker on its own Sub view of one MemFS or sharing one OrefaFS. Every program is executed under the deterministic lock-hook scheduler: all schedules with <= 2 (quick) / 3 (thorough) preemptions up to a cap, then random schedules. Oracle per execution: the vector of results and the final snapshot must equal those of some sequential order of the same calls - consistent with program order and the observed real-time order - run on a fresh instance of the same implementation (memoised per outcome); the C05 public and internal invariants are evaluated at the end of every schedule; concurrent CreateTemp/MkdirTemp must hand out distinct names. Creations without a write access mode (O_CREATE|O_EXCL alone) are among the calls. Dedicated programs (shared with C07): creations in the root of a Sub view whose directory the parent removes, moves or replaces meanwhile, queries overtaken by a move and a creation, directory moves whose locked directories form a cycle. Fixed three-worker programs for calls made of several walks against links/files/directories that come and go. Free-running (no scheduler, all cores: the only way into a window that holds no lock acquisition and no marked scheduling point): 20 000 (thorough 200 000) trials of the two directory moves whose locked directories form a cycle, started from a barrier through two views - exactly one succeeds, every directory stays reachable, the internal checker is silent; and 320 000 (thorough 1.2 M) CreateTemp calls by eight goroutines in one directory - names pairwise distinct, one entry per call, every file still holding its creator's tag. Signature = fs | multiset of call kinds | initial tree | context switches; non-trivial = at least one context switch.",
				Assumptions: []string{"composites (WriteFile, OpenFile+Write+Close) are not used as single calls: only primitives", "operands that are sequentially unsafe (root) are excluded", "deadlocks and panics seen here are counted and reported by C07"}}
		},
		CrashIsViolation: true,
		Timeout: func(tier string) int {
			if tier == "thorough" {
				return 3300
			}
			return 900
		},
		Run: func(c *rt.Ctx) {
			sched.Install()
			st := &c06Stats{inter: map[uint64]bool{}}
			r := c.Rand("c06")
			idx := 0
			for _, fsType := range []string{"MemFS", "OrefaFS"} {
				calls := c06Calls(fsType)
				trees := c06Trees(fsType)
				// all ordered pairs a || b (a <= b by index: the program is symmetric)
				for ti, tree := range trees {
					for i := range calls {
						for j := i; j < len(calls); j++ {
							idx++
							if idx%c.NShards != c.Shard {
								continue
							}
							if c.Quick() && (idx/c.NShards+int(c.Seed))%2 != 0 {
								continue
							}
							progs := [][]fsx.Op{{calls[i]}, {calls[j]}}
							c06Program(c, fsType, ti, tree, progs, c.Pick(2, 3), c.Pick(150, 1500), c.Pick(4, 20), st, r)
						}
					}
				}
				c06Dedicated(c, fsType, trees, &idx, st, r)
				// larger random programs
				for k := 0; k < c.Pick(120, 3000); k++ {
					idx++
					if idx%c.NShards != c.Shard {
						continue
					}
					nw := 2 + r.IntN(2)
					progs := make([][]fsx.Op, nw)
					for w := range progs {
						for q := 0; q < 1+r.IntN(2); q++ {
							progs[w] = append(progs[w], calls[r.IntN(len(calls))])
						}
					}
					ti := r.IntN(len(trees))
					c06Program(c, fsType, ti, trees[ti], progs, 2, c.Pick(120, 600), c.Pick(10, 40), st, r)
				}
				if c.Shard == 0 {
					c06Temps(c, fsType, st, r, c.Pick(200, 3000))
				}
				if fsType == "MemFS" && c.Shard == 1%c.NShards || fsType == "OrefaFS" && c.Shard == 2%c.NShards {
					c06TempsMany(c, fsType, c.Pick(320000, 1200000))
				}
				if fsType == "MemFS" && c.Shard == 3%c.NShards || fsType == "OrefaFS" && c.Shard == 4%c.NShards {
					c06CrossFree(c, fsType, c.Pick(20000, 200000))
				}
			}
			c.Rep.Count("distinct_interleavings", int64(len(st.inter)))
		},
	})
}
