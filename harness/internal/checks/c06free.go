package checks

import (
	"fmt"
	"sync"
	"sync/atomic"

	"verif/internal/fsx"
	"verif/internal/hook"
	"verif/internal/rt"
	"verif/internal/sched"
)

// c06CrossFree: the directory moves whose locked directories form a cycle, FREE-RUNNING on all cores (no scheduler): the
// windows the lock-granularity scheduler cannot enter - code between two lock acquisitions that nobody marked as a
// scheduling point - are only reachable by true parallelism. Two goroutines, each through its own view, start from a
// barrier; one moves /w/a/b below /w/c/e, the other /w/c/e below /w/a/b. In every sequential order exactly one of the two
// succeeds; afterwards every directory and the marker file are still reachable from the root and the internal checker
// is silent. (How the round-9 defect of MemFS.Rename was first seen: 4 times in 45 000 trials.)
func c06CrossFree(c *rt.Ctx, fsType string, trials int) {
	hook.Set(nil)
	defer sched.Install()
	tree := []fsx.Op{{K: "Mkdir", P: "/w", Perm: 0o755}, {K: "Mkdir", P: "/w/a", Perm: 0o755}, {K: "Mkdir", P: "/w/a/b", Perm: 0o755}, {K: "Mkdir", P: "/w/c", Perm: 0o755}, {K: "Mkdir", P: "/w/c/e", Perm: 0o755}, {K: "WriteFile", P: "/w/a/b/m", Data: "m", Perm: 0o644}}
	for t := 0; t < trials; t++ {
		in := c06NewInstance(fsType, tree, 2)
		var errs [2]error
		wantDirs := 0
		for _, rec := range fsx.Snap(in.root, "/w", fsx.SnapOpts{}).Recs {
			if rec.Type == "d" {
				wantDirs++
			}
		}
		var wg sync.WaitGroup
		var ready atomic.Int32
		for w := 0; w < 2; w++ {
			wg.Add(1)
			go func(w int) {
				defer wg.Done()
				// a spinning barrier: both calls begin within nanoseconds of each other
				ready.Add(1)
				for ready.Load() < 2 {
				}
				if w == 0 {
					errs[0] = in.views[0].Rename("/w/a/b", "/w/c/e/b")
				} else {
					errs[1] = in.views[1].Rename("/w/c/e", "/w/a/b/e")
				}
			}(w)
		}
		wg.Wait()
		ok := 0
		for _, e := range errs {
			if e == nil {
				ok++
			}
		}
		dirs, marker := 0, false
		for _, rec := range fsx.Snap(in.root, "/w", fsx.SnapOpts{}).Recs {
			if rec.Type == "d" {
				dirs++
			}
			if rec.Type == "f" {
				marker = true
			}
		}
		problems := in.chk.VerifCheck()
		if ok != 1 || dirs != wantDirs || !marker || len(problems) > 0 {
			c.Rep.Case(fmt.Sprintf("%s|cross-moves-free-running|succeeded=%d", fsType, ok), true)
			c.Disagree(fmt.Sprintf("%s|cross-moves-free-running|succeeded=%d|dirs=%d|marker=%v|internal=%d", fsType, ok, dirs, marker, len(problems)),
				fmt.Sprintf("%s: Rename(/w/a/b,/w/c/e/b) and Rename(/w/c/e,/w/a/b/e) started together (trial %d): %d of them succeeded (%v / %v); %d of the %d directories of /w are still reachable, the marker file: %v; internal checker: %v", fsType, t, ok, errs[0], errs[1], dirs, wantDirs, marker, problems),
				map[string]any{"fs": fsType, "trial": t})
			return
		}
	}
	c.Rep.Count("cross_moves_free_running_trials", int64(trials))
	c.Rep.Case(fmt.Sprintf("%s|cross-moves-free-running|succeeded=1", fsType), true)
}
