package checks

import (
	"crypto/sha256"
	"errors"
	"fmt"
	"hash"
	"io"
	"io/fs"
	"math"
	"math/rand/v2"
	"os"
	"reflect"
	"strings"
	"sync/atomic"
	"syscall"
	"time"

	"github.com/avfs/avfs"
	"github.com/avfs/avfs/idm/memidm"
	"github.com/avfs/avfs/vfs/basepathfs"
	"github.com/avfs/avfs/vfs/failfs"
	"github.com/avfs/avfs/vfs/memfs"
	"github.com/avfs/avfs/vfs/orefafs"
	"github.com/avfs/avfs/vfs/rofs"

	"verif/internal/fsx"
	"verif/internal/hook"
	"verif/internal/rt"
	"verif/internal/sched"
)

var c07Paths = []string{"", ".", "..", "/", "//", "/..", "a", "a/", "/w", "/w/a", "/w/a/b", "/w/a/..", "/w/a/b/c", "/w/f", "/w/f/x", "/tmp", "w", "./w/a", "../w", "/w/../..", "/w//a", "/w/a/",
	"/w/\x00", "/w/a\\b", "\\", "C:\\", "/w/" + strings.Repeat("n", 300), strings.Repeat("/d", 200), "*", "/w/*", "[", "/w/[", "x*y", "a/b",
	"/x", "x/y", "/l", "/l/d", "/l/f/x", "/l/new/x", "/lf", "/lf/x", "/w/ld/x"}
var c07Ints = []int64{math.MinInt64, -1, 0, 1, 2, 5, 7, 4096, 1 << 20, math.MaxInt32, -1 << 31}
var c07Modes = []fs.FileMode{0, 0o644, 0o755, 0o777, 0o7777, fs.ModeDir | 0o755, fs.ModeSymlink | 0o777, 0o200, ^fs.FileMode(0)}
var c07Flags = []int{0, 1, 2, 3, 0x40, 0x41, 0x42, 0xc1, 0x200, 0x201, 0x242, 0x400, 0x441, 0x1000, -1, 0x7fffffff}

type c07Target struct {
	name string
	v    reflect.Value
}

// argFor draws a hostile value for a parameter type. ok is false when the type is not supported (method skipped).
func c07Arg(r *rand.Rand, t reflect.Type, vfs avfs.VFS, files []avfs.File) (reflect.Value, bool) {
	switch t.Kind() {
	case reflect.String:
		return reflect.ValueOf(c07Paths[r.IntN(len(c07Paths))]).Convert(t), true
	case reflect.Int, reflect.Int64, reflect.Int32:
		if t == reflect.TypeOf(int(0)) && r.IntN(2) == 0 {
			return reflect.ValueOf(c07Flags[r.IntN(len(c07Flags))]), true
		}
		x := c07Ints[r.IntN(len(c07Ints))]
		if x > 1<<20 {
			x = 1 << 20 // allocation bombs (sizes and offsets beyond 1 MiB) are out of the domain: see DESIGN.md
		}
		return reflect.ValueOf(x).Convert(t), true
	case reflect.Uint8:
		return reflect.ValueOf(uint8([]byte{'/', '\\', 0, 'a', ':'}[r.IntN(5)])), true
	case reflect.Uint32:
		if t == reflect.TypeOf(fs.FileMode(0)) {
			return reflect.ValueOf(c07Modes[r.IntN(len(c07Modes))]), true
		}
		return reflect.ValueOf(uint32(r.Uint32())).Convert(t), true
	case reflect.Uint64, reflect.Uint16, reflect.Uint:
		return reflect.ValueOf(r.Uint64() >> uint(r.IntN(64))).Convert(t), true
	case reflect.Bool:
		return reflect.ValueOf(r.IntN(2) == 0), true
	case reflect.Slice:
		if t.Elem().Kind() == reflect.Uint8 {
			n := []int{0, 0, 1, 7, 64}[r.IntN(5)]
			if r.IntN(6) == 0 {
				return reflect.Zero(t), true
			}
			return reflect.ValueOf(make([]byte, n)), true
		}
		if t.Elem().Kind() == reflect.String {
			n := r.IntN(4)
			s := make([]string, n)
			for i := range s {
				s[i] = c07Paths[r.IntN(len(c07Paths))]
			}
			return reflect.ValueOf(s), true
		}
		return reflect.Zero(t), true
	case reflect.Struct:
		if t == reflect.TypeOf(time.Time{}) {
			return reflect.ValueOf([]time.Time{{}, time.Unix(0, 0), time.Unix(1<<40, 0), time.Unix(-1<<40, 0)}[r.IntN(4)]), true
		}
		return reflect.Zero(t), true
	case reflect.Func:
		if t == reflect.TypeOf(fs.WalkDirFunc(nil)) {
			n := 0
			choice := r.IntN(5)
			return reflect.ValueOf(fs.WalkDirFunc(func(path string, d fs.DirEntry, err error) error {
				n++
				if n > 500 {
					return fs.SkipAll
				}
				switch choice {
				case 0:
					return nil
				case 1:
					return fs.SkipDir
				case 2:
					return fs.SkipAll
				case 3:
					return err
				}
				return errInjected
			})), true
		}
		if strings.Contains(t.String(), "FailFunc") {
			return reflect.ValueOf(failfs.FailFunc(failfs.OkFunc)), true
		}
		return reflect.Zero(t), false
	case reflect.Interface:
		switch {
		case t == reflect.TypeOf((*hash.Hash)(nil)).Elem():
			return reflect.ValueOf(sha256.New()), true
		case t == reflect.TypeOf((*fs.FileInfo)(nil)).Elem():
			// a nil FileInfo, or one of another file system, is a programming error outside the stated domain
			if fi, err := vfs.Lstat([]string{"/", "/w", "/w/f", "/w/a"}[r.IntN(4)]); err == nil {
				return reflect.ValueOf(fi), true
			}
			return reflect.Zero(t), false
		case t == reflect.TypeOf((*avfs.UserReader)(nil)).Elem():
			if r.IntN(3) == 0 {
				return reflect.Zero(t), false // a nil user is a programming error outside the stated domain
			}
			return reflect.ValueOf(avfs.NewUser("u", []int{0, 1000, -1}[r.IntN(3)], []int{0, 1000}[r.IntN(2)])), true
		case t == reflect.TypeOf((*avfs.IdentityMgr)(nil)).Elem():
			return reflect.ValueOf(avfs.IdentityMgr(memidm.New())), true
		case t == reflect.TypeOf((*avfs.VFS)(nil)).Elem() || t == reflect.TypeOf((*avfs.VFSBase)(nil)).Elem():
			return reflect.ValueOf(vfs), true
		case t == reflect.TypeOf((*avfs.File)(nil)).Elem():
			if len(files) > 0 {
				return reflect.ValueOf(files[r.IntN(len(files))]), true
			}
		}
		return reflect.Zero(t), false
	case reflect.Ptr:
		return reflect.Zero(t), false
	}
	return reflect.Zero(t), false
}

type c07Sweep struct {
	c       *rt.Ctx
	called  map[string]bool
	inSet   map[string]bool
	skipped map[string]bool
}

// callAll calls every method of target n times with hostile arguments.
func (s *c07Sweep) callAll(r *rand.Rand, tg c07Target, vfs avfs.VFS, files []avfs.File, n int, hist *[]string) bool {
	t := tg.v.Type()
	for m := 0; m < t.NumMethod(); m++ {
		meth := t.Method(m)
		key := tg.name + "." + meth.Name
		s.inSet[key] = true
		switch meth.Name {
		case "Name":
			if strings.Contains(tg.name, "nil-handle") {
				continue // the one sanctioned panic (as in package os)
			}
		case "VerifCheck", "VerifDump", "SetFailFunc", "SetIdm", "SetFeatures", "SetOSType", "SetCurDir":
			continue
		}
		for k := 0; k < n; k++ {
			mt := meth.Type
			args := []reflect.Value{tg.v}
			ok := true
			var shown []string
			for i := 1; i < mt.NumIn(); i++ {
				pt := mt.In(i)
				if mt.IsVariadic() && i == mt.NumIn()-1 {
					a, aok := c07Arg(r, pt, vfs, files)
					ok = ok && aok
					for j := 0; j < a.Len(); j++ {
						args = append(args, a.Index(j))
						shown = append(shown, fmt.Sprintf("%q", a.Index(j).Interface()))
					}
					continue
				}
				a, aok := c07Arg(r, pt, vfs, files)
				ok = ok && aok
				args = append(args, a)
				if aok {
					shown = append(shown, c07Show(a))
				}
			}
			if !ok {
				s.skipped[key] = true
				break
			}
			call := fmt.Sprintf("%s(%s)", key, strings.Join(shown, ","))
			*hist = append(*hist, call)
			if len(*hist) > 30 {
				*hist = (*hist)[len(*hist)-30:]
			}
			c07Log(call)
			verdict, detail := c07Invoke(meth.Func, args)
			s.called[key] = true
			s.c.Rep.Case(fmt.Sprintf("%s|%s", key, verdict), true)
			if verdict != "returns" {
				known := s.c.Disagree(fmt.Sprintf("%s|%s", key, verdict), fmt.Sprintf("%s %s: %s", call, verdict, detail), map[string]any{"target": tg.name, "last_calls": append([]string{}, *hist...)})
				if known && verdict == "panics" {
					// a recorded panic (FromBasePath, a pure function) must not hide the methods that come after it in the
					// method set: the sweep of this instance goes on
					break
				}
				return false // the instance may hold leaked locks
			}
		}
	}
	return true
}

// The call in progress of the sequential parts, for the CPU-time watcher: a call that loops without reaching a lock
// site (no hook sees it) shows as process CPU time consumed with the call counter standing still.
var (
	c07Calls   atomic.Int64
	c07Cur     atomic.Pointer[string]
	c07Watched atomic.Bool
)

// c07Guard caps the address space of the worker (a call that allocates without end dies as a Go "out of memory"
// fatal error with its stack, which the driver attributes, instead of taking the host down) and starts the watcher.
func c07Guard(c *rt.Ctx) {
	lim := syscall.Rlimit{Cur: 24 << 30, Max: 24 << 30}
	_ = syscall.Setrlimit(syscall.RLIMIT_AS, &lim)
	start := "start"
	c07Cur.Store(&start)
	c07Watched.Store(true)
	rt.CPUWatch(40, func() int64 {
		if !c07Watched.Load() {
			return time.Now().UnixNano() // parts that are not made of short sequential calls are not watched
		}
		return c07Calls.Load()
	}, func() string { return *c07Cur.Load() }, func(desc string) {
		name := desc
		if i := strings.IndexByte(name, '('); i > 0 {
			name = name[:i]
		}
		c.Disagree(name+"|never-returns(cpu-loop)", "a call of the sequential sweep consumed more than 40 s of CPU time without returning or reaching a lock site (calls on these trees take microseconds): "+desc, map[string]any{"call": desc})
		c.EmitAndExit()
	})
}

// c07Log writes the call about to be made to the worker's standard output when VERIF_C07_LOG is set: a call that
// takes the whole process down (memory exhaustion) is then the last line of the worker's output.
func c07Log(call string) {
	c07Cur.Store(&call)
	c07Calls.Add(1)
	if os.Getenv("VERIF_C07_LOG") != "" {
		fmt.Println("CALL " + call)
	}
}

func c07Show(a reflect.Value) string {
	switch a.Kind() {
	case reflect.String:
		s := a.String()
		if len(s) > 24 {
			s = s[:10] + fmt.Sprintf("...(%d bytes)", len(s))
		}
		return fmt.Sprintf("%q", s)
	case reflect.Slice:
		return fmt.Sprintf("[%d]", a.Len())
	case reflect.Func:
		return "func"
	case reflect.Interface, reflect.Ptr:
		if a.IsNil() {
			return "nil"
		}
		return a.Type().String()
	}
	return fmt.Sprint(a.Interface())
}

func c07Invoke(f reflect.Value, args []reflect.Value) (verdict, detail string) {
	defer func() {
		if p := recover(); p != nil {
			switch x := p.(type) {
			case fsx.DeadlockPanic:
				verdict, detail = "never-returns(self-deadlock)", x.What
			case fsx.RunawayPanic:
				verdict, detail = "never-returns(runaway)", "more than 1e6 lock acquisitions inside one call"
			default:
				verdict, detail = "panics", fmt.Sprint(p)
				if len(detail) > 160 {
					detail = detail[:160]
				}
			}
		}
	}()
	fsx.BeginCall()
	out := f.Call(args)
	// results that are handles are closed right away (their own methods are swept separately)
	for _, o := range out {
		if o.Kind() == reflect.Interface && !o.IsNil() {
			if fl, ok := o.Interface().(avfs.File); ok {
				func() {
					defer func() { _ = recover() }()
					if !reflect.ValueOf(fl).IsNil() {
						_ = fl.Close()
					}
				}()
			}
		}
	}
	return "returns", ""
}

func c07Instance(r *rand.Rand, which int) (string, avfs.VFS) {
	mk := func(fsType string) avfs.VFS {
		v := newBase(fsType)
		_ = v.MkdirAll("/w/a/b", 0o755)
		_ = v.WriteFile("/w/f", []byte("0123456789"), 0o644)
		_ = v.MkdirAll("/base/w/a", 0o755)
		_ = v.WriteFile("/base/w/f", []byte("0123456789"), 0o644)
		buildTree(v, r, treeCfg(fsType), r.IntN(20))
		return v
	}
	switch which % 12 {
	case 9:
		// a view whose root directory has been removed through the parent: nothing can be found or created below it any
		// more, but every call still has to return
		m := mk("MemFS")
		s, err := m.Sub("/w/a")
		if err != nil {
			return "MemFS", m
		}
		_ = m.RemoveAll("/w/a")
		return "MemFS.Sub(removed root)", s
	case 10:
		// the same with the root of the view renamed away and replaced by a file
		m := mk("MemFS")
		s, err := m.Sub("/w/a")
		if err != nil {
			return "MemFS", m
		}
		_ = m.Rename("/w/a", "/w/moved")
		_ = m.WriteFile("/w/a", []byte("x"), 0o644)
		return "MemFS.Sub(moved root)", s
	case 11:
		// a wrapper over a base that holds symbolic links leading out of the base directory
		m := mk("MemFS")
		_ = m.MkdirAll("/outside/d", 0o755)
		_ = m.WriteFile("/outside/f", []byte("x"), 0o644)
		_ = m.Symlink("/outside", "/base/l")
		_ = m.Symlink("/outside/f", "/base/lf")
		_ = m.Symlink("../outside/d", "/base/w/ld")
		v, err := basepathfs.NewWithErr(m, "/base")
		if err != nil {
			return "MemFS", m
		}
		return "BasePathFS(MemFS with links out)", v
	case 0:
		return "MemFS", mk("MemFS")
	case 1:
		return "OrefaFS", mk("OrefaFS")
	case 2:
		return "RoFS(MemFS)", rofs.New(mk("MemFS"))
	case 3:
		return "RoFS(OrefaFS)", rofs.New(mk("OrefaFS"))
	case 4:
		v, err := basepathfs.NewWithErr(mk("MemFS"), "/base")
		if err != nil {
			return "MemFS", mk("MemFS")
		}
		return "BasePathFS(MemFS)", v
	case 5:
		v, err := basepathfs.NewWithErr(mk("OrefaFS"), "/base")
		if err != nil {
			return "OrefaFS", mk("OrefaFS")
		}
		return "BasePathFS(OrefaFS)", v
	case 6:
		return "FailFS(MemFS)", failfs.New(mk("MemFS"))
	case 7:
		m := mk("MemFS")
		s, err := m.Sub("/w")
		if err != nil {
			return "MemFS", m
		}
		return "MemFS.Sub", s
	default:
		return "MemIOFS", mk("MemFS")
	}
}

// c07SweepOne sweeps one instance: its own methods, those of handles opened on it, the generic helpers.
func c07SweepOne(s *c07Sweep, c *rt.Ctx, r *rand.Rand, i int, name string, v avfs.VFS) {
	var hist []string
	if !s.callAll(r, c07Target{name: name, v: reflect.ValueOf(v)}, v, nil, c.Pick(3, 4), &hist) {
		return
	}
	var files []avfs.File
	targets := c07Handles(name, v)
	for _, tg := range targets {
		if f, ok := tg.v.Interface().(avfs.File); ok {
			files = append(files, f)
		}
	}
	okAll := true
	for _, tg := range targets {
		if !s.callAll(r, tg, v, files, c.Pick(3, 4), &hist) {
			okAll = false
			break
		}
	}
	if okAll {
		c07Helpers(s, r, name, v, &hist)
	}
	if i%9 == 8 {
		idm := memidm.New()
		s.callAll(r, c07Target{name: "MemIdm", v: reflect.ValueOf(idm)}, v, nil, 6, &hist)
		if u, err := idm.AddUser("x", "root"); err == nil {
			s.callAll(r, c07Target{name: "MemUser", v: reflect.ValueOf(u)}, v, nil, 1, &hist)
		}
	}
}

// c07WinPaths is the hostile path domain of the Windows-typed instances: drive-absolute, drive-relative, rooted without
// drive, UNC, device and verbatim prefixes, volumes that do not exist, both separators, reserved names.
var c07WinPaths = []string{"", ".", "..", `\`, `/`, `C:`, `C:\`, `C:/`, `c:\w`, `C:\w`, `C:\w\a`, `C:\w\a\b`, `C:\w\a\..`, `C:\w\a\b\c`, `C:\w\f`, `C:\w\f\x`, `C:w`, `C:w\a`, `C:..`,
	`\w`, `\w\a`, `/w/a`, `C:/w/a`, `C:\w/a`, `w`, `w\a`, `.\w\a`, `..\w`, `C:\w\..\..`, `C:\w\\a`, `C:\w\a\`, `D:`, `D:\`, `D:\x`, `D:\x\y`, `D:x`, `E:\`, `E:\f`, `Z:\`, `1:\`, `::`, `C::`,
	`\\host\share`, `\\host\share\`, `\\host\share\x`, `\\host`, `\\`, `\\\`, `\\.\C:`, `\\.\C:\w`, `\\?\C:\w`, `\\?\UNC\host\share\x`, `\??\C:\w`, `//host/share/x`, `\\.\nul`,
	"C:\\w\\\x00", `con`, `C:\w\nul`, `C:\w\` + strings.Repeat("n", 300), `C:` + strings.Repeat(`\d`, 200), "*", `C:\w\*`, "[", `C:\w\[`, `C:\*\*`, `D:\*`, "x*y", `a\b`, `C:\tmp`, `C:\Users`,
	// metacharacters inside what would be the volume name, with nothing after it
	`\\host\sha*`, `\\ho?t\share`, `\\host\*`, `\\*`, `\\.\C*`, `\\?\*`, `\??\*`, `\\[h]ost\share`, `C*`, `?:`, `C:*`, `\\host\share*\x`}

func c07WinInstance(r *rand.Rand, which int) (string, avfs.VFS) {
	mk := func(fsType string) avfs.VFS {
		var v avfs.VFS
		if fsType == "OrefaFS" {
			v = orefafs.NewWithOptions(&orefafs.Options{OSType: avfs.OsWindows})
		} else {
			v = memfs.NewWithOptions(&memfs.Options{OSType: avfs.OsWindows})
		}
		_ = v.MkdirAll(`C:\w\a\b`, 0o755)
		_ = v.WriteFile(`C:\w\f`, []byte("0123456789"), 0o644)
		_ = v.MkdirAll(`C:\base\w\a`, 0o755)
		_ = v.WriteFile(`C:\base\w\f`, []byte("0123456789"), 0o644)
		if vm, ok := v.(avfs.VolumeManager); ok && r.IntN(3) > 0 {
			_ = vm.VolumeAdd("E:")
			_ = v.WriteFile(`E:\f`, []byte("on-e"), 0o644)
			_ = v.Link(`E:\f`, `C:\w\from-e`)
			if r.IntN(2) == 0 {
				_ = v.Chdir(`E:\`)
			}
		}
		return v
	}
	switch which % 6 {
	case 0, 1:
		return "MemFS/Windows", mk("MemFS")
	case 2:
		return "OrefaFS/Windows", mk("OrefaFS")
	case 3:
		m := mk("MemFS")
		v, err := basepathfs.NewWithErr(m, `C:\base`)
		if err != nil {
			return "MemFS/Windows", m
		}
		return "BasePathFS(MemFS/Windows)", v
	case 4:
		return "RoFS(MemFS/Windows)", rofs.New(mk("MemFS"))
	default:
		m := mk("MemFS")
		s, err := m.Sub(`C:\w`)
		if err != nil {
			return "MemFS/Windows", m
		}
		return "MemFS/Windows.Sub", s
	}
}

// c07Windows is the sweep of the Windows-typed instances; it runs in workers built with -tags avfs_setostype.
func c07Windows(c *rt.Ctx) {
	hook.Sequential()
	if avfs.BuildFeatures()&avfs.FeatSetOSType == 0 {
		c.Rep.Inconclusive = append(c.Rep.Inconclusive, "the Windows-typed part of the sweep runs in a worker built without the avfs_setostype tag")
		return
	}
	c07Paths = c07WinPaths
	s := &c07Sweep{c: c, called: map[string]bool{}, inSet: map[string]bool{}, skipped: map[string]bool{}}
	for i := 0; i < c.Pick(600, 6000); i++ {
		if i%c.NShards != c.Shard {
			continue
		}
		r := c.Rand(fmt.Sprintf("sweep-win-%d", i))
		name, v := c07WinInstance(r, i)
		if v.OSType() != avfs.OsWindows {
			c.Rep.Inconclusive = append(c.Rep.Inconclusive, name+" is not Windows-typed")
			return
		}
		c07SweepOne(s, c, r, i, name, v)
	}
	c.Rep.Count("windows_typed_methods_called", int64(len(s.called)))
	c.Rep.Sample(map[string]any{"kind": "sweep of Windows-typed instances", "targets": "MemFS, OrefaFS, BasePathFS, RoFS, Sub view, with a second volume", "path_domain": c07WinPaths[:16]}, 1)
}

// c07SeekExtremes: positions at the ends of the int64 range. Seek with offsets whose sum with the current position or
// the size overflows, then reads, queries and path-level calls on the same file: everything returns (a refused Seek,
// an io.EOF), nothing panics, no lock stays behind. Only reading calls follow an extreme position: writing at 2^62 is
// the allocation domain the sweep leaves out.
func c07SeekExtremes(c *rt.Ctx) {
	offs := []int64{math.MaxInt64, math.MaxInt64 - 1, math.MaxInt64 - 4, math.MinInt64, math.MinInt64 + 1, -1, 0, 4, 1 << 62, -(1 << 62)}
	for _, fsType := range []string{"MemFS", "OrefaFS"} {
		for _, first := range []int64{0, 4, 10} {
			for _, off := range offs {
				for whence := 0; whence <= 2; whence++ {
					v := newBase(fsType)
					_ = v.MkdirAll("/w", 0o755)
					_ = v.WriteFile("/w/f", []byte("0123456789"), 0o644)
					f, err := v.OpenFile("/w/f", os.O_RDWR, 0)
					if err != nil {
						continue
					}
					var hist []string
					step := func(what string, fn func()) bool {
						hist = append(hist, what)
						c07Log(fsType + ": " + what)
						verdict, detail := c07Invoke(reflect.ValueOf(fn), nil)
						c.Rep.Case(fmt.Sprintf("%s|seek-extremes|%s|%s", fsType, strings.SplitN(what, "(", 2)[0], verdict), true)
						if verdict != "returns" {
							c.Disagree(fmt.Sprintf("%s|seek-extremes|%s|%s", fsType, strings.SplitN(what, "(", 2)[0], verdict), fmt.Sprintf("%s: after %v, %s %s: %s", fsType, hist[:len(hist)-1], what, verdict, detail), map[string]any{"fs": fsType, "history": hist})
							return false
						}
						return true
					}
					buf := make([]byte, 8)
					ok := step(fmt.Sprintf("Seek(%d,0)", first), func() { _, _ = f.Seek(first, 0) }) &&
						step(fmt.Sprintf("Seek(%d,%d)", off, whence), func() {
							if p, err := f.Seek(off, whence); err == nil && p < 0 {
								panic(fmt.Sprintf("Seek returns the negative position %d and no error", p))
							}
						}) &&
						step("Read(8 bytes)", func() { _, _ = f.Read(buf) }) &&
						step(fmt.Sprintf("ReadAt(8 bytes,%d)", off), func() { _, _ = f.ReadAt(buf, off) }) &&
						(off <= math.MaxInt64-2 || step(fmt.Sprintf("WriteAt(2 bytes,%d)", off), func() {
							// the end of the write lies beyond the largest offset: refused, not an index out of range
							if n, err := f.WriteAt([]byte("zz"), off); err == nil {
								panic(fmt.Sprintf("WriteAt returns n=%d and no error", n))
							}
						})) &&
						step("Seek(0,1)", func() { _, _ = f.Seek(0, 1) }) &&
						step("Stat()", func() { _, _ = f.Stat() }) &&
						step("Truncate(path,3)", func() { _ = v.Truncate("/w/f", 3) }) &&
						step("Chmod(path)", func() { _ = v.Chmod("/w/f", 0o600) }) &&
						step("ReadFile(path)", func() { _, _ = v.ReadFile("/w/f") }) &&
						step("Close()", func() { _ = f.Close() }) &&
						step("Remove(path)", func() { _ = v.Remove("/w/f") })
					_ = ok
				}
			}
		}
	}
}

// c07BatchExtremes: batch sizes at the ends of the int range on a directory handle whose cursor is not at the start.
func c07BatchExtremes(c *rt.Ctx) {
	for _, fsType := range []string{"MemFS", "OrefaFS"} {
		for _, n := range []int{math.MaxInt, math.MaxInt - 1, math.MaxInt - 2, math.MinInt, math.MinInt + 1, -1, 0, 2} {
			for variant := 0; variant < 4; variant++ {
				v := newBase(fsType)
				for _, d := range []string{"/w/a", "/w/b", "/w/c"} {
					_ = v.MkdirAll(d, 0o755)
				}
				f, err := v.OpenFile("/w", os.O_RDONLY, 0)
				if err != nil {
					continue
				}
				var hist []string
				step := func(what string, fn func()) bool {
					hist = append(hist, what)
					c07Log(fsType + ": " + what)
					verdict, detail := c07Invoke(reflect.ValueOf(fn), nil)
					c.Rep.Case(fmt.Sprintf("%s|batch-extremes|%s|%s", fsType, strings.SplitN(what, "(", 2)[0], verdict), true)
					if verdict != "returns" {
						c.Disagree(fmt.Sprintf("%s|batch-extremes|%s|%s", fsType, strings.SplitN(what, "(", 2)[0], verdict), fmt.Sprintf("%s: on a handle of a directory of 3 entries, after %v, %s %s: %s", fsType, hist[:len(hist)-1], what, verdict, detail), map[string]any{"fs": fsType, "history": hist})
						return false
					}
					return true
				}
				first, second := "ReadDir", "ReadDir"
				if variant&1 != 0 {
					first = "Readdirnames"
				}
				if variant&2 != 0 {
					second = "Readdirnames"
				}
				call := func(k string, n int) func() {
					if k == "ReadDir" {
						return func() { _, _ = f.ReadDir(n) }
					}
					return func() { _, _ = f.Readdirnames(n) }
				}
				_ = step(first+"(1)", call(first, 1)) && step(fmt.Sprintf("%s(%d)", second, n), call(second, n)) && step(first+"(1)", call(first, 1)) && step("Close()", func() { _ = f.Close() })
			}
		}
	}
}

func c07Handles(name string, v avfs.VFS) []c07Target {
	var out []c07Target
	add := func(kind string, f avfs.File) {
		if f != nil {
			if reflect.ValueOf(f).Kind() == reflect.Ptr && reflect.ValueOf(f).IsNil() {
				kind += "(nil-handle)" // e.g. RoFS refusing a write open returns a nil typed handle with the error
			}
			out = append(out, c07Target{name: name + "/File:" + kind, v: reflect.ValueOf(f)})
		}
	}
	open := func(p string, flag int) avfs.File {
		var f avfs.File
		func() {
			defer func() { _ = recover() }()
			f, _ = v.OpenFile(avfs.FromUnixPath(v, p), flag, 0o644)
		}()
		return f
	}
	add("file-rdwr", open("/w/f", 2))
	add("file-rdonly", open("/w/f", 0))
	add("file-wronly-append", open("/w/f", 0x401))
	add("dir", open("/w", 0))
	if c := open("/w/f", 0); c != nil {
		func() {
			defer func() { _ = recover() }()
			_ = c.Close()
		}()
		add("closed", c)
	}
	// the handle returned together with an error, and a nil typed handle
	func() {
		defer func() { _ = recover() }()
		f, err := v.OpenFile("/w/missing/x", 0, 0)
		if err != nil && f != nil {
			out = append(out, c07Target{name: name + "/File:returned-with-error(nil-handle)", v: reflect.ValueOf(f)})
		}
		g, err2 := v.Create("/w/a")
		if err2 != nil && g != nil {
			out = append(out, c07Target{name: name + "/File:create-error(nil-handle)", v: reflect.ValueOf(g)})
		}
		h, err3 := v.CreateTemp("/w/missing", "x")
		if err3 != nil && h != nil {
			out = append(out, c07Target{name: name + "/File:createtemp-error(nil-handle)", v: reflect.ValueOf(h)})
		}
	}()
	return out
}

// c07Helpers sweeps the exported generic helpers of package avfs.
func c07Helpers(s *c07Sweep, r *rand.Rand, name string, v avfs.VFS, hist *[]string) {
	p := func() string { return c07Paths[r.IntN(len(c07Paths))] }
	try := func(what string, f func()) {
		key := "avfs." + what
		s.inSet[key] = true
		verdict, detail := "returns", ""
		c07Log(key + " on " + name)
		fsx.BeginCall()
		func() {
			defer func() {
				if x := recover(); x != nil {
					switch d := x.(type) {
					case fsx.DeadlockPanic:
						verdict, detail = "never-returns(self-deadlock)", d.What
					case fsx.RunawayPanic:
						verdict, detail = "never-returns(runaway)", ""
					default:
						verdict, detail = "panics", fmt.Sprint(x)
					}
				}
			}()
			f()
		}()
		s.called[key] = true
		s.c.Rep.Case(fmt.Sprintf("%s[%s]|%s", key, name, verdict), true)
		if verdict != "returns" {
			s.c.Disagree(fmt.Sprintf("%s|%s", key, verdict), fmt.Sprintf("%s on %s %s: %s (last calls %v)", key, name, verdict, detail, *hist), map[string]any{"target": name, "last_calls": append([]string{}, *hist...)})
		}
	}
	a, b := p(), p()
	*hist = append(*hist, fmt.Sprintf("helpers(%q,%q)", a, b))
	try("FromUnixPath", func() { _ = avfs.FromUnixPath(v, a) })
	try("Glob", func() { _, _ = avfs.Glob(v, a) })
	try("WalkDir", func() {
		n := 0
		_ = avfs.WalkDir(v, a, func(string, fs.DirEntry, error) error {
			n++
			if n > 300 {
				return fs.SkipAll
			}
			return nil
		})
	})
	try("CopyFile", func() { _ = avfs.CopyFile(v, v, a, b) })
	try("CopyFileHash", func() { _, _ = avfs.CopyFileHash(v, v, a, b, sha256.New()) })
	try("HashFile", func() { _, _ = avfs.HashFile(v, a, sha256.New()) })
	try("IsEmpty", func() { _, _ = avfs.IsEmpty(v, a) })
	try("Exists", func() { _, _ = avfs.Exists(v, a) })
	try("DirExists", func() { _, _ = avfs.DirExists(v, a) })
	try("IsDir", func() { _, _ = avfs.IsDir(v, a) })
	try("MkHomeDir", func() { _, _ = avfs.MkHomeDir(v, a, avfs.NewUser(b, 1000, 1000)) })
	try("HomeDirUser", func() { _ = avfs.HomeDirUser(v, a, avfs.NewUser(b, 1000, 1000)) })
	try("SplitAbs", func() { _, _ = avfs.SplitAbs(v, a) })
	try("VolumeName", func() { _ = avfs.VolumeName(v, a) })
	try("PathIterator", func() {
		pi := avfs.NewPathIterator(v, a)
		for i := 0; pi.Next() && i < 300; i++ {
			_ = pi.Part() + pi.Left() + pi.Right() + pi.LeftPart() + pi.RightPart()
			if i == 1 {
				pi.ReplacePart(b)
			}
		}
	})
	if bp, ok := v.(*basepathfs.BasePathFS); ok {
		try("BasePathFS.ToBasePath", func() { _ = bp.ToBasePath(a) })
		try("BasePathFS.FromBasePath", func() { _ = bp.FromBasePath(bp.ToBasePath(a)) })
	}
	try("Tree/RndTree", func() {
		rt := avfs.NewRndTree(v, &avfs.RndTreeOpts{NbDirs: 3, NbFiles: 3, NbSymlinks: 2, MaxFileSize: 8, MaxDepth: 2})
		_ = rt.CreateTree("/tmp")
	})
}

func init() {
	_ = memfs.New
	_ = orefafs.New
	register(&Check{
		Prop:   "C07",
		Shards: shards(14, 16),
		Meta: func(tier string) rt.Meta {
			return rt.Meta{Level: "exploration", MinEvals: 20000, MinDistinct: 200,
				Rule:        "(a) reflection-driven adversarial sweep: the method sets of MemFS, OrefaFS, RoFS and BasePathFS over both, FailFS, a Sub view, MemIdm and of their File handles (regular read/write/append, directory, closed, nil typed handle returned together with an error) are walked with reflect and every parameter is filled from a hostile domain chosen by its Go type (paths: empty, ., .., /, //, unclean, NUL and backslash, 300-byte names, 400-byte paths, glob metacharacters; integers: MinInt64, -1, 0, boundaries up to 1 MiB; open flags; file modes incl. type bits; buffers; times; callbacks), after random preceding calls; plus the exported helpers (Glob, WalkDir, CopyFile, HashFile, PathIterator, FromUnixPath, To/FromBasePath, RndTree...). Each call runs under recover() and under the sequential lock hook, which turns a lock that can never be acquired into a logical 'never returns' verdict and counts lock sites for runaway detection. (a') permission-failure scenarios: a tree built by a non-administrator on MemFS, non-empty directories then protected by the administrator, RemoveAll/MkdirAll/Rename/Remove by the owner failing half-way; the call and Stat/ReadDir/Lstat of every directory afterwards must return (a lock kept on an error path is a logical self-deadlock). (a1b) directory handles read in batches (ReadDir/Readdirnames mixed) while entries are removed and created: every call returns. (a2) every FailFS function id failing in turn x composite helpers (ReadFile, WriteFile, CopyFile, HashFile, ReadDir, WalkDir, Glob, MkdirAll, temp helpers, RemoveAll) on files of 0..70000 bytes around the 512-byte and 32 KiB buffers: every call returns. (a3) the sweep over Windows-typed MemFS/OrefaFS/BasePathFS/RoFS/Sub instances with a second volume and a path domain of drive, UNC, device, verbatim and missing-volume spellings and patterns with metacharacters inside the volume name, run by two extra workers from the avfs_setostype build. The injected errors of (a2) are of five classes (opaque, exist, not-exist, permission, EOF) and the failure callback counts against the call's lock-site budget. Seek to the ends of the int64 range followed by reads and path-level calls on the same file. The dedicated programs of C06 run here too (a deadlock is only counted there). A CPU-time watcher (40 s of process CPU inside one sequential call) and a 24 GiB address-space cap turn a lock-free loop and an endless allocation into verdicts that name the call. (b) deadlock/panic verdicts of the deterministic scheduler over the C06 programs, over all pairs (plus a third) of methods called by different goroutines on ONE shared file or directory handle, and over dedicated lock-order programs (opposite cross-directory renames, rename against mkdir/remove/open in the involved directories, link against remove, handle operations against path operations on the same node). Signature = type.method | verdict; all non-trivial.",
				Assumptions: []string{"sizes and offsets beyond 1 MiB (allocation bombs on an in-memory file system) and a nil UserReader are outside the domain", "pure-CPU non-termination without lock acquisitions inside the scheduler part (b) would only be caught by the worker watchdog (inconclusive)"}}
		},
		CrashIsViolation: true,
		Timeout: func(tier string) int {
			if tier == "thorough" {
				return 3300
			}
			return 900
		},
		OSShards: 2,
		Run: func(c *rt.Ctx) {
			c07Guard(c)
			if os.Getenv("VERIF_PART") == "os" {
				c07Windows(c)
				return
			}
			// ---- (a) sequential adversarial sweep
			hook.Sequential()
			s := &c07Sweep{c: c, called: map[string]bool{}, inSet: map[string]bool{}, skipped: map[string]bool{}}
			rounds := c.Pick(900, 9000)
			for i := 0; i < rounds; i++ {
				if i%c.NShards != c.Shard {
					continue
				}
				r := c.Rand(fmt.Sprintf("sweep-%d", i))
				name, v := c07Instance(r, i)
				c07SweepOne(s, c, r, i, name, v)
			}
			c.Rep.Count("methods_in_swept_method_sets", int64(len(s.inSet)))
			c.Rep.Count("methods_called", int64(len(s.called)))
			var sk []string
			for k := range s.skipped {
				sk = append(sk, k)
			}
			if len(sk) > 0 && c.Shard == 0 {
				c.Rep.Notes = append(c.Rep.Notes, fmt.Sprintf("methods skipped (a parameter type has no hostile domain): %v", sk))
			}
			c.Rep.Sample(map[string]any{"kind": "sweep", "targets": "MemFS, OrefaFS, RoFS(x), BasePathFS(x), FailFS, MemFS.Sub, MemIdm and their File handles", "path_domain": c07Paths[:12]}, 1)

			c07Watched.Store(false)
			// ---- (a') composite calls failing half-way on permissions, issued by a non-administrator: they and every
			// later call on the same directories must return (a lock kept on an error path shows up here)
			for h := 0; h < c.Pick(2000, 40000); h++ {
				if h%c.NShards == c.Shard {
					c05Partial(c, h, true)
				}
			}

			// ---- directory handles read in batches while their directory shrinks and grows: every batch call returns
			for h := 0; h < c.Pick(1500, 20000); h++ {
				if h%c.NShards == c.Shard {
					c02Dir(c, []string{"MemFS", "OrefaFS"}[h%2], c.Rand(fmt.Sprintf("c07-dir-%d", h)), true)
				}
			}

			// ---- (a") composite helpers under an injected fault, on files around the buffer sizes: every call returns
			c07Watched.Store(true)
			if c.Shard == 3%c.NShards {
				c07SeekExtremes(c)
				c07BatchExtremes(c)
				c07KthFault(c)
			}
			c07Faults(c)

			// ---- (b) schedules: every worker returns
			c07Watched.Store(false)
			sched.Install()
			st := &c06Stats{inter: map[uint64]bool{}}
			r := c.Rand("c07-sched")
			c07OnlyReturns = true
			defer func() { c07OnlyReturns = false }()
			idx := 0
			for _, fsType := range []string{"MemFS", "OrefaFS"} {
				trees := c06Trees(fsType)
				calls := c06Calls(fsType)
				// queries take locks too (directory, then its entries): they belong to the lock-order programs
				for _, p := range []string{"/w", "/w/d", "/w/a", "/w/b", "/w/d/a"} {
					calls = append(calls, fsx.Op{K: "ReadDir", P: p}, fsx.Op{K: "Stat", P: p}, fsx.Op{K: "ReadFile", P: p}, fsx.Op{K: "WalkDir", P: p}, fsx.Op{K: "Lstat", P: p})
				}
				lockOrder := [][][]fsx.Op{
					{{{K: "Rename", P: "/w/a", Q: "/w/d/a"}}, {{K: "Rename", P: "/w/d/a", Q: "/w/a"}}},
					{{{K: "Rename", P: "/w/b", Q: "/w/d/x"}}, {{K: "Rename", P: "/w/d/a", Q: "/w/y"}}},
					{{{K: "Rename", P: "/w/d/a", Q: "/w/x"}}, {{K: "Remove", P: "/w/d"}}},
					{{{K: "Rename", P: "/w/a", Q: "/w/d/x"}}, {{K: "Mkdir", P: "/w/d/x", Perm: 0o755}}, {{K: "Remove", P: "/w/d/a"}}},
					{{{K: "Rename", P: "/w/d", Q: "/w/a/d"}}, {{K: "RemoveAll", P: "/w/a"}}},
					{{{K: "Link", P: "/w/b", Q: "/w/d/y"}}, {{K: "Remove", P: "/w/b"}}, {{K: "Rename", P: "/w/d/a", Q: "/w/b"}}},
					{{{K: "OpenWriteClose", P: "/w/b", Flag: 0x241, Data: "zz", Perm: 0o644}}, {{K: "Truncate", P: "/w/b", N: 1}}, {{K: "Rename", P: "/w/b", Q: "/w/d/b"}}},
					{{{K: "RemoveAll", P: "/w"}}, {{K: "MkdirAll", P: "/w/d/x/y", Perm: 0o755}}, {{K: "Rename", P: "/w/d", Q: "/w/e"}}},
					{{{K: "ReadDir", P: "/w"}, {K: "Stat", P: "/w/d/a"}}, {{K: "Rename", P: "/w/d/a", Q: "/w/a"}}, {{K: "RemoveAll", P: "/w/d"}}},
					{{{K: "ReadDir", P: "/w"}}, {{K: "Rename", P: "/w/b", Q: "/w/d/x"}}},
					{{{K: "ReadDir", P: "/w/d"}}, {{K: "Link", P: "/w/d/a", Q: "/w/d/y"}}, {{K: "ReadDir", P: "/w"}}},
					{{{K: "ReadDir", P: "/w"}}, {{K: "Link", P: "/w/b", Q: "/w/y"}}},
					{{{K: "WalkDir", P: "/w"}}, {{K: "Rename", P: "/w/d", Q: "/w/a/d"}}, {{K: "RemoveAll", P: "/w/a"}}},
					// a file growing between the size probe and the reads of ReadFile
					{{{K: "ReadFile", P: "/w/big"}}, {{K: "OpenWriteClose", P: "/w/big", Flag: 0x401, Data: "x"}}},
					// a rename that inverts the ancestor relation of the two directories a Link/Rename is about to lock
					{{{K: "Link", P: "/w/d/a", Q: "/w/a/y"}}, {{K: "Rename", P: "/w/a", Q: "/w/d/z"}}, {{K: "ReadDir", P: "/w/d"}}},
					{{{K: "Rename", P: "/w/d/a", Q: "/w/a/y"}}, {{K: "Rename", P: "/w/a", Q: "/w/d/z"}}, {{K: "ReadDir", P: "/w/d"}}},
					{{{K: "Link", P: "/w/b", Q: "/w/a/y"}}, {{K: "Rename", P: "/w/d", Q: "/w/a/z"}}, {{K: "Lstat", P: "/w/a/z"}, {K: "ReadDir", P: "/w/a"}}},
				}
				for ti, tree := range trees {
					for _, progs := range lockOrder {
						idx++
						if idx%c.NShards != c.Shard {
							continue
						}
						c06Program(c, fsType, ti, tree, progs, c.Pick(2, 3), c.Pick(400, 4000), c.Pick(20, 100), st, r)
					}
				}
				// the dedicated programs of C06 (several walks against entries that come and go, directory moves whose locked
				// directories form a cycle): the same programs, judged here on "every worker returns"
				c06Dedicated(c, fsType, trees, &idx, st, r)
				for k := 0; k < c.Pick(200, 4000); k++ {
					idx++
					if idx%c.NShards != c.Shard {
						continue
					}
					nw := 2 + r.IntN(2)
					progs := make([][]fsx.Op, nw)
					for w := range progs {
						for q := 0; q < 1+r.IntN(2); q++ {
							progs[w] = append(progs[w], calls[r.IntN(len(calls))])
						}
					}
					ti := r.IntN(len(trees))
					c06Program(c, fsType, ti, trees[ti], progs, 2, c.Pick(100, 500), c.Pick(10, 40), st, r)
				}
			}
			c07SharedHandle(c, st, r)
			c.Rep.Count("distinct_interleavings", int64(len(st.inter)))
		},
	})
}

// c07SharedHandle runs, under the deterministic scheduler, two or three goroutines calling methods of ONE open handle
// (a regular file and a directory): every schedule must end with every call returned. A lock of the handle taken twice
// by one call (a read lock re-entered while a writer waits) is a deadlock the sequential sweep cannot see.
func c07SharedHandle(c *rt.Ctx, st *c06Stats, r *rand.Rand) {
	type hop struct {
		name string
		f    func(f avfs.File)
	}
	buf := func() []byte { return make([]byte, 4) }
	fileOps := []hop{
		{"Stat", func(f avfs.File) { _, _ = f.Stat() }}, {"Seek(0,2)", func(f avfs.File) { _, _ = f.Seek(0, 2) }}, {"Seek(1,1)", func(f avfs.File) { _, _ = f.Seek(1, 1) }},
		{"Read", func(f avfs.File) { _, _ = f.Read(buf()) }}, {"ReadAt", func(f avfs.File) { _, _ = f.ReadAt(buf(), 1) }}, {"Write", func(f avfs.File) { _, _ = f.Write([]byte("xy")) }},
		{"WriteAt", func(f avfs.File) { _, _ = f.WriteAt([]byte("z"), 2) }}, {"WriteString", func(f avfs.File) { _, _ = f.WriteString("s") }}, {"Truncate", func(f avfs.File) { _ = f.Truncate(3) }},
		{"Chmod", func(f avfs.File) { _ = f.Chmod(0o600) }}, {"Chown", func(f avfs.File) { _ = f.Chown(0, 0) }}, {"Sync", func(f avfs.File) { _ = f.Sync() }}, {"Name", func(f avfs.File) { _ = f.Name() }},
		{"Close", func(f avfs.File) { _ = f.Close() }},
	}
	dirOps := []hop{
		{"Stat", func(f avfs.File) { _, _ = f.Stat() }}, {"ReadDir(1)", func(f avfs.File) { _, _ = f.ReadDir(1) }}, {"ReadDir(-1)", func(f avfs.File) { _, _ = f.ReadDir(-1) }},
		{"Readdirnames(1)", func(f avfs.File) { _, _ = f.Readdirnames(1) }}, {"Chdir", func(f avfs.File) { _ = f.Chdir() }}, {"Chmod", func(f avfs.File) { _ = f.Chmod(0o700) }},
		{"Name", func(f avfs.File) { _ = f.Name() }}, {"Close", func(f avfs.File) { _ = f.Close() }},
	}
	idx := 0
	for _, fsType := range []string{"MemFS", "OrefaFS"} {
		for _, dir := range []bool{false, true} {
			ops := fileOps
			if dir {
				ops = dirOps
			}
			for i := range ops {
				for j := i; j < len(ops); j++ {
					idx++
					if idx%c.NShards != c.Shard {
						continue
					}
					third := ops[r.IntN(len(ops))]
					prog := []hop{ops[i], ops[j], third}
					nw := 2 + r.IntN(2)
					prog = prog[:nw]
					names := make([]string, nw)
					for w := range prog {
						names[w] = prog[w].name
					}
					what := fmt.Sprintf("%s shared %s handle: %v", fsType, map[bool]string{false: "file", true: "directory"}[dir], names)
					runOne := func(choose func(e *sched.Exec, enabled []int) int) *sched.Exec {
						v, _ := newEmu(fsType)
						_ = v.MkdirAll("/w/d/sub", 0o755)
						_ = v.WriteFile("/w/f", []byte("0123456789"), 0o644)
						_ = v.WriteFile("/w/d/e", []byte("e"), 0o644)
						var f avfs.File
						if dir {
							f, _ = v.OpenFile("/w/d", 0, 0)
						} else {
							f, _ = v.OpenFile("/w/f", 2, 0)
						}
						var e *sched.Exec
						panics := make([]string, nw)
						bodies := make([]func(int), nw)
						for w := range prog {
							w := w
							bodies[w] = func(int) {
								defer func() {
									if x := recover(); x != nil {
										panics[w] = fmt.Sprint(x)
									}
								}()
								e.Boundary()
								prog[w].f(f)
							}
						}
						e = sched.New(bodies, choose)
						verdict, desc := e.Run()
						st.inter[e.InterleavingHash()] = true
						c.Rep.Count("schedules", 1)
						c.Rep.Case(fmt.Sprintf("%s|shared-handle|dir=%v|%s|switches=%d", fsType, dir, strings.Join(names, "+"), min3(e.Switches, 4)), e.Switches > 0)
						var ch []int
						for _, d := range e.Trace {
							ch = append(ch, d.Chosen)
						}
						replay := map[string]any{"fs": fsType, "directory_handle": dir, "workers": names, "schedule": ch}
						switch {
						case verdict == sched.Deadlock:
							c.Disagree(fmt.Sprintf("%s|shared-handle|%s|deadlock", fsType, strings.Join(names, "+")), what+": a schedule ends with every unfinished goroutine waiting for a lock: "+desc, replay)
						case verdict != sched.Completed:
							c.Disagree(fmt.Sprintf("%s|shared-handle|%s|runaway", fsType, strings.Join(names, "+")), what+": a schedule does not terminate: "+desc, replay)
						default:
							for w, px := range panics {
								if px != "" {
									c.Disagree(fmt.Sprintf("%s|shared-handle|%s|panic", fsType, strings.Join(names, "+")), fmt.Sprintf("%s: %s panics: %s", what, names[w], px), replay)
								}
							}
						}
						return e
					}
					sched.Explore(2, c.Pick(60, 600), func(p []int) *sched.Exec { return runOne(sched.Prefix(p)) })
					for k := 0; k < c.Pick(3, 20); k++ {
						runOne(sched.Random(r.IntN, 6))
					}
					c.Rep.Count("shared_handle_programs", 1)
				}
			}
		}
	}
}

// c07Faults fails every consultation of one FailFS function id at a time (all ids) and runs the helpers that are made of
// several primitives on files whose sizes sit around the internal buffer sizes (512 bytes, 32 KiB): whatever they return,
// they must return (a helper that keeps reading after a failed size probe is a runaway under the sequential hook).
// c07KthFault: the helpers of the top-level package under "the k-th primitive consulted during the call fails": a
// helper that looks twice at a path (found, then gone) must still return.
func c07KthFault(c *rt.Ctx) {
	errs := []struct {
		name string
		err  error
	}{{"opaque", errors.New("c07-injected")}, {"not-exist", &fs.PathError{Op: "c07", Path: "/injected", Err: avfs.ErrNoSuchFileOrDir}}, {"permission", &fs.PathError{Op: "c07", Path: "/injected", Err: avfs.ErrPermDenied}}}
	for _, fsType := range []string{"MemFS", "OrefaFS"} {
		base := newBase(fsType)
		_ = base.MkdirAll("/w/d/e", 0o755)
		_ = base.MkdirAll("/w/empty", 0o755)
		_ = base.WriteFile("/w/f", []byte("0123456789"), 0o644)
		ff := failfs.New(base)
		var count, failAt int
		var injected error
		_ = ff.SetFailFunc(func(_ avfs.VFSBase, _ avfs.FnVFS, _ *failfs.FailParam) error {
			fsx.CheckRunaway()
			count++
			if count-1 == failAt {
				return injected
			}
			return nil
		})
		helpers := []struct {
			name string
			fn   func(p string)
		}{
			{"IsEmpty", func(p string) { _, _ = avfs.IsEmpty(ff, p) }}, {"Exists", func(p string) { _, _ = avfs.Exists(ff, p) }}, {"DirExists", func(p string) { _, _ = avfs.DirExists(ff, p) }},
			{"IsDir", func(p string) { _, _ = avfs.IsDir(ff, p) }}, {"ReadDir", func(p string) { _, _ = ff.ReadDir(p) }}, {"ReadFile", func(p string) { _, _ = ff.ReadFile(p) }},
			{"Glob", func(p string) { _, _ = ff.Glob(p + "/*") }}, {"WalkDir", func(p string) { _ = ff.WalkDir(p, func(string, fs.DirEntry, error) error { return nil }) }},
			{"HashFile", func(p string) { _, _ = avfs.HashFile(ff, p, sha256.New()) }}, {"CopyFile", func(p string) { _ = avfs.CopyFile(ff, ff, "/w/copy", p) }},
			{"WriteFile", func(p string) { _ = ff.WriteFile(p+".n", []byte("x"), 0o644) }}, {"MkdirTemp", func(p string) { _, _ = ff.MkdirTemp(p, "t*") }},
			{"CreateTemp", func(p string) {
				if f, err := ff.CreateTemp(p, "t*"); err == nil && f != nil {
					_ = f.Close()
				}
			}},
			{"MkdirAll", func(p string) { _ = ff.MkdirAll(p+"/x/y", 0o755) }}, {"RemoveAll", func(p string) { _ = ff.RemoveAll(p + "/x") }},
		}
		for _, h := range helpers {
			for _, p := range []string{"/w/empty", "/w/d", "/w/f", "/w/missing"} {
				for _, e := range errs {
					for k := 0; k < 6; k++ {
						count, failAt, injected = 0, k, e.err
						c07Log(fmt.Sprintf("%s: %s(%s) with the primitive number %d failing (%s)", fsType, h.name, p, k, e.name))
						fn := h.fn
						verdict, detail := c07Invoke(reflect.ValueOf(func() { fn(p) }), nil)
						c.Rep.Case(fmt.Sprintf("FailFS(%s)|kth-fault|%s|k=%d/%s|%s", fsType, h.name, k, e.name, verdict), true)
						if verdict != "returns" {
							c.Disagree(fmt.Sprintf("FailFS(%s)|kth-fault|%s|%s", fsType, h.name, verdict), fmt.Sprintf("FailFS over %s with the primitive number %d of the call failing with a %s error: %s(%q) %s: %s", fsType, k, e.name, h.name, p, verdict, detail), map[string]any{"fs": fsType, "helper": h.name, "path": p, "k": k, "error": e.name})
						}
					}
				}
			}
		}
	}
}

func c07Faults(c *rt.Ctx) {
	// the injected error is of every class the composites look at (errors.Is ... fs.ErrExist / fs.ErrNotExist /
	// fs.ErrPermission decide about retries and fallbacks), wrapped as the file systems wrap theirs, or opaque
	classes := []struct {
		name string
		err  error
	}{
		{"opaque", errors.New("c07-injected")},
		{"exist", &fs.PathError{Op: "c07", Path: "/injected", Err: avfs.ErrFileExists}},
		{"not-exist", &fs.PathError{Op: "c07", Path: "/injected", Err: avfs.ErrNoSuchFileOrDir}},
		{"permission", &fs.PathError{Op: "c07", Path: "/injected", Err: avfs.ErrPermDenied}},
		{"eof", io.EOF},
	}
	sizes := []int{0, 1, 511, 512, 513, 600, 5000, 32768, 32769, 70000}
	idx := 0
	for _, fsType := range []string{"MemFS", "OrefaFS"} {
		for fn := avfs.FnVFS(1); !strings.HasPrefix(fn.String(), "FnVFS("); fn++ {
			for _, cl := range classes {
				idx++
				if idx%c.NShards != c.Shard {
					continue
				}
				injected := cl.err
				base := newBase(fsType)
				_ = base.MkdirAll("/w/d", 0o755)
				for _, n := range sizes {
					_ = base.WriteFile(fmt.Sprintf("/w/f%d", n), make([]byte, n), 0o644)
				}
				ff := failfs.New(base)
				fn := fn
				_ = ff.SetFailFunc(func(_ avfs.VFSBase, f avfs.FnVFS, _ *failfs.FailParam) error {
					// every primitive issued counts against the budget of the call in progress: a composite that retries
					// for ever on the injected error never reaches a lock site of the base file system
					fsx.CheckRunaway()
					if f == fn {
						return injected
					}
					return nil
				})
				env := fsx.NewEnv(ff)
				var ops []fsx.Op
				for _, n := range sizes {
					p := fmt.Sprintf("/w/f%d", n)
					ops = append(ops, fsx.Op{K: "ReadFile", P: p}, fsx.Op{K: "Stat", P: p}, fsx.Op{K: "OpenWriteClose", P: p, Flag: syscall.O_WRONLY | syscall.O_APPEND, Data: "x"},
						fsx.Op{K: "WriteFile", P: p + ".new", Data: "y", Perm: 0o644}, fsx.Op{K: "Truncate", P: p, N: int64(n / 2)})
				}
				ops = append(ops, fsx.Op{K: "ReadDir", P: "/w"}, fsx.Op{K: "WalkDir", P: "/w"}, fsx.Op{K: "Glob", P: "/w/*"}, fsx.Op{K: "MkdirAll", P: "/w/d/e/f", Perm: 0o755},
					fsx.Op{K: "CreateTemp", P: "/w", Q: "t*", H: 7}, fsx.Op{K: "MkdirTemp", P: "/w", Q: "t*"}, fsx.Op{K: "RemoveAll", P: "/w/d"})
				for _, o := range ops {
					res := env.Exec(o)
					c.Rep.Case(fmt.Sprintf("FailFS(%s)|fail=%s/"+cl.name+"|%s|%s", fsType, fn, o.K, res.Err), true)
					if fatalRes(res) {
						c.Disagree(fmt.Sprintf("FailFS(%s)|fail=%s/"+cl.name+"|%s|%s", fsType, fn, o.K, res.Err), fmt.Sprintf("FailFS over %s with every %s failing with a "+cl.name+" error: %s does not return normally: %s", fsType, fn, o, res.Raw), map[string]any{"fs": fsType, "failing": fn.String(), "call": o.String()})
						break
					}
				}
				for _, n := range sizes {
					p := fmt.Sprintf("/w/f%d", n)
					for _, hf := range []string{"CopyFile", "HashFile"} {
						verdict, detail := c07Invoke(reflect.ValueOf(func() {
							if hf == "CopyFile" {
								_ = avfs.CopyFile(ff, ff, p+".copy", p)
							} else {
								_, _ = avfs.HashFile(ff, p, sha256.New())
							}
						}), nil)
						c.Rep.Case(fmt.Sprintf("FailFS(%s)|fail=%s/"+cl.name+"|%s|%s", fsType, fn, hf, verdict), true)
						if verdict != "returns" {
							c.Disagree(fmt.Sprintf("FailFS(%s)|fail=%s/"+cl.name+"|%s|%s", fsType, fn, hf, verdict), fmt.Sprintf("FailFS over %s with every %s failing with a "+cl.name+" error: %s(%s) %s: %s", fsType, fn, hf, p, verdict, detail), map[string]any{"fs": fsType, "failing": fn.String(), "call": hf + " " + p})
						}
					}
				}
				env.CloseAll()
			}
		}
	}
}

// c07OnlyReturns makes the C06 judge report only deadlocks, runaways and panics (the C07 part of the schedules).
var c07OnlyReturns bool
