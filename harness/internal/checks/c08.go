package checks

import (
	"bytes"
	"crypto/sha256"
	"fmt"
	"os"
	"path/filepath"
	"runtime"
	"sort"
	"strings"
	"sync"
	"sync/atomic"

	"github.com/avfs/avfs"
	"github.com/avfs/avfs/idm/memidm"
	"github.com/avfs/avfs/vfs/memfs"

	"verif/internal/fsx"
	"verif/internal/gen"
	"verif/internal/hook"
	"verif/internal/rt"
)

var (
	c08Jitter  uint64
	visQueries atomic.Int64
	c08RepMu   sync.Mutex
)

// c08Disagree serialises the reports of concurrent monitor goroutines (the report itself is not thread-safe).
func c08Disagree(c *rt.Ctx, sig, what string, replay any) {
	c08RepMu.Lock()
	defer c08RepMu.Unlock()
	c.Disagree(sig, what, replay)
}

// c08Hook widens the interleavings of a free-running workload: it yields the processor at a seeded fraction of the lock sites.
func c08Hook(_ *sync.RWMutex, _ bool) {
	n := atomic.AddUint64(&c08Jitter, 0x9e3779b97f4a7c15)
	if n>>60 < 5 {
		runtime.Gosched()
	}
}

func c08RaceDir() string { return filepath.Join(rt.VerifDir, ".build", "race") }

type c08Calls struct {
	mu sync.Mutex
	m  map[string]int64
}

func (k *c08Calls) add(kind string) {
	k.mu.Lock()
	k.m[kind]++
	k.mu.Unlock()
}

// c08Tree runs G goroutines of random calls over a small shared tree.
func c08Tree(c *rt.Ctx, fsType string, rep int, G, steps int, sharedView bool, calls *c08Calls) {
	var root avfs.VFS
	var users []avfs.UserReader
	if fsType == "MemFS" {
		m, us := newMemWithUsers()
		root, users = m, us
	} else {
		root = newBase(fsType)
	}
	_ = root.MkdirAll("/w/a", 0o777)
	_ = root.Chmod("/w", 0o777)
	_ = root.WriteFile("/w/b", []byte("0123456789"), 0o666)
	_ = root.Chmod("/w/b", 0o666)
	var wg sync.WaitGroup
	for g := 0; g < G; g++ {
		v := root
		if fsType == "MemFS" && !sharedView {
			s, err := root.(*memfs.MemFS).Sub("/")
			if err == nil {
				v = s
				_ = v.SetUser(users[g%len(users)])
				_ = v.SetUMask([]os.FileMode{0o022, 0, 0o077}[g%3])
			}
		}
		r := c.Rand(fmt.Sprintf("c08-%s-%d-%d", fsType, rep, g))
		cfg := gen.Cfg{Root: "/w", Names: []string{"a", "b", "c"}, Depth: 2, Links: true, Owners: true, Temps: true, Handles: true, Walk: true, AvoidRootOps: true}
		if fsType == "MemFS" {
			cfg.Symlinks = true
			cfg.Chdir = !sharedView
		}
		gn := gen.New(cfg, r)
		env := fsx.NewEnv(v)
		wg.Add(1)
		g := g
		go func() {
			defer wg.Done()
			for i := 0; i < steps; i++ {
				if i%16 == 0 {
					// a cheap refresh of what exists (racy by nature, only used to bias the generator)
					s := fsx.Snap(v, "/w", fsx.SnapOpts{MaxNodes: 40})
					gn.Observe(s.Recs, "/")
				}
				if i%23 == 5 {
					// the creation mask is an atomic of the file system (or of the view): set and read by everybody while
					// others create
					_ = v.SetUMask([]os.FileMode{0o022, 0o027, 0o002}[(i+g)%3])
					_ = v.UMask()
					calls.add("SetUMask")
				}
				o := gn.Next()
				if o.K == "F.Chdir" || (sharedView && (o.K == "Chdir")) {
					continue
				}
				res := env.Exec(o)
				calls.add(o.K)
				if res.Err == "panic" {
					calls.add("panic:" + o.K)
				}
			}
			env.CloseAll()
		}()
	}
	wg.Wait()
}

// c08SharedHandle: several goroutines use ONE handle, and several handles, on the same file.
func c08SharedHandle(c *rt.Ctx, fsType string, rep int, calls *c08Calls) {
	v := newBase(fsType)
	_ = v.MkdirAll("/w", 0o777)
	_ = v.WriteFile("/w/f", []byte("0123456789abcdef"), 0o666)
	shared, err := v.OpenFile("/w/f", os.O_RDWR, 0)
	if err != nil {
		return
	}
	dir, _ := v.OpenFile("/w", os.O_RDONLY, 0)
	var wg sync.WaitGroup
	for g := 0; g < 6; g++ {
		g := g
		r := c.Rand(fmt.Sprintf("c08h-%s-%d-%d", fsType, rep, g))
		own, _ := v.OpenFile("/w/f", []int{os.O_RDWR, os.O_RDONLY, os.O_WRONLY | os.O_APPEND}[g%3], 0)
		wg.Add(1)
		go func() {
			defer wg.Done()
			gn := gen.New(gen.Cfg{Root: "/w", Names: []string{"f"}, Depth: 1}, r)
			e1 := fsx.NewEnv(v)
			e1.Files[0], e1.Files[1], e1.Files[2] = shared, own, dir
			for i := 0; i < 150; i++ {
				o := gn.FileOp()
				if o.K == "OpenFile" || o.K == "F.Close" || o.K == "F.Chdir" {
					continue
				}
				if o.K == "F.ReadDir" || o.K == "F.Readdirnames" {
					o.H = 2
				} else if o.H == 2 {
					o.H = g % 2
				}
				e1.Exec(o)
				calls.add(o.K)
				if i%10 == 0 {
					e1.Exec(fsx.Op{K: "WriteFile", P: fmt.Sprintf("/w/n%d", (g+i)%4), Data: "x", Perm: 0o644})
					e1.Exec(fsx.Op{K: "Remove", P: fmt.Sprintf("/w/n%d", (g+i+1)%4)})
				}
			}
		}()
	}
	wg.Wait()
}

// c08Root: the root directory as operand. One goroutine fills the root and empties it again with RemoveAll("/") while
// others list, stat and walk the root by path and through one shared directory handle on it, and create below it.
func c08Root(c *rt.Ctx, fsType string, rep int, calls *c08Calls) {
	v := newBase(fsType)
	dir, err := v.OpenFile("/", os.O_RDONLY, 0)
	if err != nil {
		return
	}
	var wg sync.WaitGroup
	for g := 0; g < 5; g++ {
		g := g
		wg.Add(1)
		go func() {
			defer wg.Done()
			e := fsx.NewEnv(v)
			e.Files[0] = dir
			for i := 0; i < 60; i++ {
				var ops []fsx.Op
				switch g {
				case 0:
					ops = []fsx.Op{{K: "MkdirAll", P: fmt.Sprintf("/r%d/s", i%3), Perm: 0o755}, {K: "WriteFile", P: fmt.Sprintf("/q%d", i%3), Data: "x", Perm: 0o644}, {K: "RemoveAll", P: "/"}}
				case 1:
					ops = []fsx.Op{{K: "ReadDir", P: "/"}, {K: "Stat", P: "/"}, {K: "Lstat", P: "/"}}
				case 2:
					ops = []fsx.Op{{K: "F.Readdirnames", H: 0, N: 2}, {K: "F.ReadDir", H: 0, N: -1}, {K: "F.Stat", H: 0}}
				case 3:
					ops = []fsx.Op{{K: "WalkDir", P: "/"}, {K: "Glob", P: "/*"}}
				default:
					ops = []fsx.Op{{K: "Mkdir", P: fmt.Sprintf("/m%d", i%2), Perm: 0o755}, {K: "WriteFile", P: fmt.Sprintf("/m%d/f", i%2), Data: "y", Perm: 0o644}, {K: "Remove", P: fmt.Sprintf("/q%d", i%3)}}
				}
				for _, o := range ops {
					res := e.Exec(o)
					calls.add("root:" + o.K)
					if res.Err == "panic" {
						calls.add("panic:" + o.K)
					}
				}
			}
		}()
	}
	wg.Wait()
	_ = dir.Close()
}

func c08Idm(c *rt.Ctx, rep int, calls *c08Calls) {
	idm := memidm.New()
	var wg sync.WaitGroup
	for g := 0; g < 8; g++ {
		r := c.Rand(fmt.Sprintf("c08i-%d-%d", rep, g))
		wg.Add(1)
		go func() {
			defer wg.Done()
			for i := 0; i < 200; i++ {
				o := idmGen(r)
				idmExec(idm, o)
				calls.add("Idm." + o.K)
			}
		}()
	}
	wg.Wait()
}

// c08Visibility: every effect of a completed call is visible to calls that start afterwards in any goroutine.
func c08Visibility(c *rt.Ctx, fsType string, rep int) {
	root := newBase(fsType)
	_ = root.MkdirAll("/v", 0o777)
	const W = 4
	var done [W]atomic.Int64
	var wg sync.WaitGroup
	stop := atomic.Bool{}
	for w := 0; w < W; w++ {
		w := w
		v := root
		if fsType == "MemFS" {
			if s, err := root.(*memfs.MemFS).Sub("/"); err == nil {
				v = s
			}
		}
		wg.Add(1)
		go func() {
			defer wg.Done()
			for k := int64(1); k <= 120; k++ {
				var err error
				switch k % 3 {
				case 0:
					err = v.Mkdir(fmt.Sprintf("/v/%d-%d", w, k), 0o755)
				case 1:
					err = v.WriteFile(fmt.Sprintf("/v/%d-%d", w, k), []byte(fmt.Sprintf("%d-%d", w, k)), 0o644)
				default:
					err = v.WriteFile(fmt.Sprintf("/v/%d-%d.tmp", w, k), []byte(fmt.Sprintf("%d-%d", w, k)), 0o644)
					if err == nil {
						err = v.Rename(fmt.Sprintf("/v/%d-%d.tmp", w, k), fmt.Sprintf("/v/%d-%d", w, k))
					}
				}
				if err != nil {
					c08Disagree(c, fsType+"|visibility|writer-error", fmt.Sprintf("%s: creating a name of its own fails: %v", fsType, err), nil)
					return
				}
				done[w].Store(k) // taken after the call returned
			}
		}()
	}
	for rd := 0; rd < 4; rd++ {
		v := root
		if fsType == "MemFS" {
			if s, err := root.(*memfs.MemFS).Sub("/"); err == nil {
				v = s
			}
		}
		wg.Add(1)
		go func() {
			defer wg.Done()
			for i := 0; i < 400 && !stop.Load(); i++ {
				w := i % W
				k := done[w].Load() // read before the query starts
				if k == 0 {
					continue
				}
				name := fmt.Sprintf("/v/%d-%d", w, k)
				visQueries.Add(1)
				switch i % 3 {
				case 0:
					if _, err := v.Stat(name); err != nil {
						c08Disagree(c, fsType+"|visibility|Stat", fmt.Sprintf("%s: %s was created by a call that had returned, yet a later Stat fails: %v", fsType, name, err), nil)
						stop.Store(true)
					}
				case 1:
					es, err := v.ReadDir("/v")
					found := false
					for _, e := range es {
						if "/v/"+e.Name() == name {
							found = true
						}
					}
					if err != nil || !found {
						c08Disagree(c, fsType+"|visibility|ReadDir", fmt.Sprintf("%s: %s was created by a call that had returned, yet a later ReadDir does not list it (%v)", fsType, name, err), nil)
						stop.Store(true)
					}
				default:
					if k%3 != 0 {
						b, err := v.ReadFile(name)
						if err != nil || string(b) != fmt.Sprintf("%d-%d", w, k) {
							c08Disagree(c, fsType+"|visibility|ReadFile", fmt.Sprintf("%s: %s was written by a call that had returned, yet a later ReadFile returns %q, %v", fsType, name, b, err), nil)
							stop.Store(true)
						}
					}
				}
			}
		}()
	}
	wg.Wait()
}

// c08Collect parses the race-detector logs of the workers: blocks are counted from the files (exit codes are not
// trusted) and de-duplicated by the pair of innermost avfs functions of the two conflicting accesses.
func c08Collect(total *rt.Report) {
	files, _ := filepath.Glob(filepath.Join(c08RaceDir(), "C08.*"))
	blocks := 0
	type pair struct {
		key    string
		sample string
	}
	seen := map[string]string{}
	for _, f := range files {
		b, err := os.ReadFile(f)
		if err != nil {
			continue
		}
		for _, blk := range strings.Split(string(b), "==================") {
			if !strings.Contains(blk, "WARNING: DATA RACE") {
				continue
			}
			blocks++
			// the stacks of the two accesses: sections start with "Read at", "Write at", "Previous read at", "Previous write at"
			var tops []string
			cur := ""
			inAccess := false
			for _, line := range strings.Split(blk, "\n") {
				l := strings.TrimSpace(line)
				if strings.HasPrefix(l, "Read at") || strings.HasPrefix(l, "Write at") || strings.HasPrefix(l, "Previous read at") || strings.HasPrefix(l, "Previous write at") {
					if cur != "" {
						tops = append(tops, cur)
					}
					cur, inAccess = "?", true
					continue
				}
				if strings.HasPrefix(l, "Goroutine ") {
					inAccess = false
				}
				if inAccess && cur == "?" && strings.HasPrefix(l, "github.com/avfs/avfs") {
					name := l
					if j := strings.LastIndexByte(name, '('); j > 0 {
						name = name[:j]
					}
					cur = strings.TrimPrefix(name, "github.com/avfs/avfs/")
				}
			}
			if cur != "" {
				tops = append(tops, cur)
			}
			sort.Strings(tops)
			key := strings.Join(tops, " <-> ")
			if _, ok := seen[key]; !ok {
				s := blk
				if len(s) > 3000 {
					s = s[:3000]
				}
				seen[key] = s
			}
		}
	}
	total.Counters["race_report_blocks"] = int64(blocks)
	total.Counters["race_reports_after_dedup"] = int64(len(seen))
	find := rt.LoadFindings()
	for key, sample := range seen {
		sig := "race|" + key
		if id := find.Match("C08", sig); id != "" {
			total.Known[id]++
			if _, ok := total.KnownSample[id]; !ok {
				total.KnownSample[id] = sig
			}
			continue
		}
		total.Violate(sig, "the race detector reports a data race between "+key, map[string]any{"report": sample})
	}
}

// c08Copy runs concurrent CopyFile / CopyFileHash / HashFile calls on distinct files of one shared file system: the
// helpers share a pool of buffers, each copy must end with its own bytes and digest.
func c08Copy(c *rt.Ctx, fsType string, rep int, calls *c08Calls) {
	v := newBase(fsType)
	_ = v.MkdirAll("/w", 0o755)
	const G = 6
	var wg sync.WaitGroup
	for g := 0; g < G; g++ {
		content := bytes.Repeat([]byte{byte('A' + g)}, 20000+g*13000)
		src := fmt.Sprintf("/w/src%d", g)
		_ = v.WriteFile(src, content, 0o644)
		wg.Add(1)
		go func(g int) {
			defer wg.Done()
			var view avfs.VFS = v
			if m, ok := v.(*memfs.MemFS); ok {
				if s, err := m.Sub("/"); err == nil {
					view = s
				}
			}
			want := sha256.Sum256(content)
			for i := 0; i < 6; i++ {
				dst := fmt.Sprintf("/w/dst%d-%d", g, i)
				sum, err := avfs.CopyFileHash(view, view, dst, src, sha256.New())
				calls.add("CopyFileHash")
				got, rerr := view.ReadFile(dst)
				if err != nil || rerr != nil || !bytes.Equal(got, content) || !bytes.Equal(sum, want[:]) {
					c08Disagree(c, "copy|"+fsType+"|concurrent-copies-interfere", fmt.Sprintf("%s: %d goroutines copying distinct files concurrently: copy %d of goroutine %d ends with %d bytes (want %d), digest ok=%v, errors %v / %v", fsType, G, i, g, len(got), len(content), bytes.Equal(sum, want[:]), err, rerr), nil)
					return
				}
				if h, herr := avfs.HashFile(view, src, sha256.New()); herr != nil || !bytes.Equal(h, want[:]) {
					c08Disagree(c, "copy|"+fsType+"|concurrent-hash-wrong", fmt.Sprintf("%s: HashFile of goroutine %d returns a wrong digest (%v) while other goroutines copy", fsType, g, herr), nil)
					return
				}
				calls.add("HashFile")
			}
		}(g)
	}
	wg.Wait()
	_ = rep
}

func init() {
	register(&Check{
		Prop:   "C08",
		Shards: shards(8, 16),
		Meta: func(tier string) rt.Meta {
			return rt.Meta{Level: "exploration", MinEvals: 10000, MinDistinct: 20,
				Rule:        "the harness is built with -race and every workload runs free on all cores with a seeded yield at a fraction of the lock sites (verif hook): (1) 2-16 goroutines issuing random calls of all ~40 kinds (incl. Rename, Link, Symlink, Truncate, Chmod, Chown, Chtimes, ReadDir/WalkDir while mutating, temp creation, handle I/O) over 3 names in a shared tree - MemFS through per-goroutine Sub views with different users and umasks and their own cwd, one shared OrefaFS, everybody also setting and reading the creation mask; (2) six goroutines sharing ONE handle and each owning another handle on the same file, plus a shared directory handle, while names are created and removed; (2b) the root as operand: one goroutine fills the root and empties it with RemoveAll(\"/\") while others list, stat, glob and walk it by path and through one shared directory handle on it, and create below it; (3) one shared MemIdm under add/del/lookup; (3b) six goroutines copying and hashing distinct files concurrently (CopyFileHash/HashFile share a pool of buffers): every copy ends with its own bytes and digest; (4) visibility: writers create names carrying their id and publish a counter after the call returned, readers read the counter before Stat/ReadDir/ReadFile and must see the name (unique names make the log unambiguous). Race reports are collected with GORACE=halt_on_error=0 log_path=..., counted from the log files and de-duplicated by the pair of innermost avfs functions; a runtime fatal error (concurrent map access) in a worker is a violation. Signature = workload | call kind; evaluations = calls executed; non-trivial = call kinds executed concurrently with others on the shared tree.",
				Assumptions: []string{"only races of the schedules that ran are seen (inherent to dynamic race detection)", "sharing one OrefaFS *view* among goroutines that Chdir/SetUser it is not exercised: those write unsynchronised per-view fields and are not part of the documented use"}}
		},
		CrashIsViolation: true,
		Env: func(shard int) []string {
			return []string{fmt.Sprintf("GORACE=halt_on_error=0 exitcode=0 log_path=%s/C08.%d", c08RaceDir(), shard)}
		},
		Timeout: func(tier string) int {
			if tier == "thorough" {
				return 1500
			}
			return 300
		},
		Pre: func(tier string) {
			_ = os.RemoveAll(c08RaceDir())
			_ = os.MkdirAll(c08RaceDir(), 0o755)
		},
		Post: func(tier string, total *rt.Report) { c08Collect(total) },
		Run: func(c *rt.Ctx) {
			if c.Shard == 0 {
				// stale logs of a previous run must not be counted (the other shards only add files)
			}
			hook.Set(c08Hook)
			calls := &c08Calls{m: map[string]int64{}}
			reps := c.Pick(96, 960)
			for rep := 0; rep < reps; rep++ {
				if rep%c.NShards != c.Shard {
					continue
				}
				G := []int{2, 4, 8, 16}[rep%4]
				c08Tree(c, "MemFS", rep, G, c.Pick(150, 300), false, calls)
				c08Tree(c, "OrefaFS", rep, G, c.Pick(150, 300), true, calls)
				c08SharedHandle(c, "MemFS", rep, calls)
				c08SharedHandle(c, "OrefaFS", rep, calls)
				c08Root(c, "MemFS", rep, calls)
				c08Root(c, "OrefaFS", rep, calls)
				c08Idm(c, rep, calls)
				c08Copy(c, "MemFS", rep, calls)
				c08Copy(c, "OrefaFS", rep, calls)
				c08Visibility(c, "MemFS", rep)
				c08Visibility(c, "OrefaFS", rep)
			}
			c.Rep.Count("visibility_queries", visQueries.Load())
			for k, n := range calls.m {
				c.Rep.Evaluations += n
				c.Rep.Sigs["calls|"+k] += n
				c.Rep.Nontrivial["calls|"+k] = true
				if strings.HasPrefix(k, "panic:") {
					c.Rep.Count("recovered_panics", n) // C07's business; counted
				}
			}
			c.Rep.Sample(map[string]any{"workloads": []string{"tree:MemFS(Sub views)", "tree:OrefaFS(shared)", "shared-handle", "MemIdm", "visibility"}, "goroutines": "2..16"}, 1)
		},
	})
}
