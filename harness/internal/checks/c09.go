package checks

import (
	"fmt"
	"math/rand/v2"
	"strings"

	"github.com/avfs/avfs"
	"github.com/avfs/avfs/vfs/memfs"
	"github.com/avfs/avfs/vfs/orefafs"
	"github.com/avfs/avfs/vfs/rofs"

	"verif/internal/fsx"
	"verif/internal/gen"
	"verif/internal/hook"
	"verif/internal/rt"
)

// newBase returns a fresh emulated file system of the given type.
func newBase(fsType string) avfs.VFS {
	v, _ := newEmu(fsType)
	return v
}

var _ = memfs.New
var _ = orefafs.New

// buildTree populates v with a random tree by running n generated calls directly on it (as administrator).
// The same (seed, name) produces the same tree on a twin instance.
func buildTree(v avfs.VFS, r *rand.Rand, cfg gen.Cfg, n int) {
	e := fsx.NewEnv(v)
	_ = v.MkdirAll(cfg.Root, 0o755)
	g := gen.New(cfg, r)
	for i := 0; i < n; i++ {
		s := fsx.Snap(v, "/", fsx.SnapOpts{})
		cwd, _ := v.Getwd()
		g.Observe(s.Recs, cwd)
		o := g.Next()
		if o.K == "Chdir" || strings.HasPrefix(o.K, "F.") || o.K == "OpenFile" || o.K == "Create" || o.K == "CreateTemp" || o.K == "MkdirTemp" {
			continue
		}
		e.Exec(o)
	}
	e.CloseAll()
}

// mutatingKind reports whether a call is mutating by its API meaning (not by its outcome).
func mutatingKind(o fsx.Op) bool {
	switch o.K {
	case "Mkdir", "MkdirAll", "Remove", "RemoveAll", "Rename", "Link", "Symlink", "Truncate", "Chmod", "Chown", "Lchown", "Chtimes",
		"Create", "WriteFile", "CreateTemp", "MkdirTemp",
		"F.Write", "F.WriteAt", "F.WriteString", "F.Truncate", "F.Chmod", "F.Chown":
		return true
	case "OpenFile", "OpenWriteClose":
		return o.Flag != 0
	}
	return false
}

func treeCfg(fsType string) gen.Cfg {
	g := gen.Cfg{Root: "/w", Names: []string{"a", "b", "c"}, Depth: 3, Links: true, Owners: true, Specials: true, AvoidRootOps: true}
	if fsType == "MemFS" {
		g.Symlinks = true
	}
	return g
}

func c09History(c *rt.Ctx, fsType string, h int) {
	r := c.Rand(fmt.Sprintf("c09-%s-%d", fsType, h))
	seedA, seedB := r.Uint64(), r.Uint64()
	base := newBase(fsType)
	twin := newBase(fsType)
	buildTree(base, rand.New(rand.NewPCG(seedA, seedB)), treeCfg(fsType), 30)
	buildTree(twin, rand.New(rand.NewPCG(seedA, seedB)), treeCfg(fsType), 30)
	// a file larger than the 32 KiB buffers of the library: what a read call returns must be a copy at every size (the
	// executor overwrites every returned slice, the base snapshot would show it)
	for _, v := range []avfs.VFS{base, twin} {
		_ = v.MkdirAll("/w", 0o755)
		_ = v.WriteFile("/w/huge", []byte(strings.Repeat("0123456789abcdef", []int{2048, 2500, 4096, 8192}[h%4])), 0o644)
	}
	if h%6 == 0 {
		// the features are advisory flags anybody can set: a base that merely says it is read-only is as writable as
		// before, and what RoFS hands out (Sub views, files) has to be wrapped all the same
		for _, v := range []avfs.VFS{base, twin} {
			if fm, ok := v.(interface{ SetFeatures(avfs.Features) error }); ok {
				_ = fm.SetFeatures(v.Features() | avfs.FeatReadOnly)
			}
		}
	}
	ro := rofs.New(base)
	var under avfs.VFS = ro
	var ref avfs.VFS = twin
	viaSub := ""
	// in one history out of three (MemFS only: OrefaFS has no Sub) work through a view obtained from the RoFS
	if fsType == "MemFS" && h%3 == 0 {
		dir := []string{"/", "/w", "/w/a", "/w/b", "/w/ab"}[r.IntN(5)]
		// the Sub call itself is a call through the read-only file system: the base may not change
		b0 := fsx.Snap(base, "/", fsx.SnapOpts{Mtime: true, SymSize: true}).String()
		s, err := ro.Sub(dir)
		c.Rep.Case(fmt.Sprintf("RoFS/%s|Sub|%v", fsType, err == nil), true)
		if b1 := fsx.Snap(base, "/", fsx.SnapOpts{Mtime: true, SymSize: true}).String(); b1 != b0 {
			c.Disagree(fmt.Sprintf("RoFS/%s|Sub|base-changed", fsType), fmt.Sprintf("RoFS over %s: Sub(%q) changed the underlying file system: %v", fsType, dir, diffText(b0, b1)), map[string]any{"fs": fsType, "tree_seed": []uint64{seedA, seedB}, "call": "Sub " + dir})
			return
		}
		if err == nil {
			t, terr := twin.Sub(dir)
			if terr == nil {
				under, ref, viaSub = s, t, dir
			}
		}
	}
	cfg := treeCfg(fsType)
	cfg.Chdir, cfg.Temps, cfg.Handles, cfg.Walk = true, true, true, true
	if viaSub != "" && viaSub != "/" {
		cfg.Root = "/"
		cfg.Depth = 2
		if viaSub == "/w" {
			cfg.Depth = 3
		}
	}
	g := gen.New(cfg, r)
	env := fsx.NewEnv(under)
	renv := fsx.NewEnv(ref)
	var hist []fsx.Op
	snapOpt := fsx.SnapOpts{Mtime: true, SymSize: true}
	before := fsx.Snap(base, "/", snapOpt).String()
	n := c.Pick(100, 100)
	for i := 0; i < n; i++ {
		s := fsx.Snap(ref, "/", fsx.SnapOpts{})
		cwd, _ := ref.Getwd()
		g.Observe(s.Recs, cwd)
		o := g.Next()
		if mutatingKind(o) && r.IntN(4) == 0 {
			// "no change" arguments: zero times, current size, current mode, owner -1/-1, empty data
			var size int64
			var mode uint32
			if fi, err := ref.Stat(o.P); err == nil {
				size, mode = fi.Size(), uint32(fi.Mode().Perm())
			}
			o = gen.Degenerate(r, o, size, mode)
		}
		hist = append(hist, o)
		res := env.Exec(o)
		if fatalRes(res) {
			// a panic or self-deadlock inside avfs is C07's business; the instance may hold leaked locks: stop here
			c.Rep.Count("histories_ended_by_panic_or_deadlock", 1)
			return
		}
		after := fsx.Snap(base, "/", snapOpt).String()
		kind := o.K
		if o.K == "OpenFile" || o.K == "OpenWriteClose" {
			kind += "[" + fsx.FlagString(o.Flag) + "]"
		}
		via := "RoFS"
		if viaSub != "" {
			via = "RoFS.Sub"
		}
		sigBase := fmt.Sprintf("%s/%s|%s", via, fsType, kind)
		replay := func() any {
			return map[string]any{"fs": fsType, "via_sub": viaSub, "tree_seed": []uint64{seedA, seedB}, "history": hist, "history_text": opStrings(hist), "result": res}
		}
		if after != before {
			c.Disagree(sigBase+"|base-changed", fmt.Sprintf("%s over %s: %s changed the underlying file system: %v", via, fsType, o, diffText(before, after)), replay())
			before = after
			return
		}
		if mutatingKind(o) {
			c.Rep.Case(sigBase+"|"+res.Err, true)
			if res.Err == "nohandle" {
				continue
			}
			if res.Err == "ok" || !res.Perm {
				// closed-handle / invalid errors on a handle are legitimate refusals too: only success or a non-permission error
				// of a call that reached the wrapper is judged
				if res.Err == "closed" || res.Err == "invalid" {
					continue
				}
				c.Disagree(sigBase+"|not-refused:"+res.Err, fmt.Sprintf("%s over %s: mutating call %s returns %s instead of a permission-class error", via, fsType, o, res), replay())
			}
			continue
		}
		// read-only call: same answer as the underlying file system (twin driven directly)
		want := renv.Exec(o)
		if o.K == "F.Sync" {
			// neither mutating nor a query: RoFile refuses it (listed as such by the property's anchors); only the base
			// snapshot is judged
			continue
		}
		c.Rep.Case(sigBase+"|"+res.Err, true)
		if !res.Same(want) {
			c.Disagree(sigBase+"|differs-from-base:"+res.Err+"/"+want.Err, fmt.Sprintf("%s over %s: %s returns %s but the underlying file system returns %s", via, fsType, o, res, want), replay())
			return
		}
	}
	// a closed handle stays closed whatever is opened afterwards: calls on it answer as on the underlying file system,
	// and handles opened since are not affected by them
	file := ""
	for _, rec := range fsx.Snap(ref, "/", fsx.SnapOpts{}).Recs {
		if rec.Type == "f" {
			file = rec.Path
			break
		}
	}
	if file != "" {
		tail := []fsx.Op{{K: "Open", P: file, H: 20}, {K: "F.Close", H: 20}, {K: "Open", P: "/", H: 21}, {K: "Open", P: file, H: 22}, {K: "F.Read", H: 20, N: 4}, {K: "F.Stat", H: 20}, {K: "F.Seek", H: 20, N: 1, M: 0},
			{K: "F.ReadAt", H: 20, N: 2, M: 0}, {K: "F.Close", H: 20}, {K: "F.Read", H: 22, N: 4}, {K: "F.Stat", H: 22}, {K: "F.Readdirnames", H: 21, N: -1}, {K: "F.Close", H: 21}, {K: "Open", P: file, H: 23}, {K: "F.Readdirnames", H: 21, N: -1},
			{K: "F.Stat", H: 21}, {K: "F.Read", H: 23, N: 3}, {K: "F.Close", H: 22}, {K: "F.Close", H: 23}}
		for _, o := range tail {
			hist = append(hist, o)
			res, want := env.Exec(o), renv.Exec(o)
			if fatalRes(res) {
				return
			}
			c.Rep.Case(fmt.Sprintf("RoFS/%s|closed-handle-tail|%s|%s", fsType, o.K, res.Err), true)
			if after := fsx.Snap(base, "/", snapOpt).String(); after != before {
				c.Disagree(fmt.Sprintf("RoFS/%s|closed-handle-tail|%s|base-changed", fsType, o.K), fmt.Sprintf("RoFS over %s: %s changed the underlying file system: %v", fsType, o, diffText(before, after)), map[string]any{"fs": fsType, "history_text": opStrings(hist[len(hist)-min3(len(tail), len(hist)):])})
				return
			}
			if !res.Same(want) {
				c.Disagree(fmt.Sprintf("RoFS/%s|closed-handle-tail|%s|differs-from-base:%s/%s", fsType, o.K, res.Err, want.Err), fmt.Sprintf("RoFS over %s (via Sub %q): after a handle was closed and others were opened, %s returns %s but the underlying file system returns %s", fsType, viaSub, o, res, want), map[string]any{"fs": fsType, "via_sub": viaSub, "tree_seed": []uint64{seedA, seedB}, "history_text": opStrings(hist[len(hist)-min3(len(tail), len(hist)):])})
				return
			}
		}
	}
	c.Rep.Count("complete_histories", 1)
	c.Rep.Sample(map[string]any{"fs": fsType, "via_sub": viaSub, "last_calls": opStrings(hist[len(hist)-5:])}, 3)
}

func fatalRes(r fsx.Res) bool { return r.Err == "panic" || r.Err == "deadlock" }

func diffText(a, b string) []string {
	la, lb := strings.Split(a, "\n"), strings.Split(b, "\n")
	ma, mb := map[string]bool{}, map[string]bool{}
	for _, l := range la {
		ma[l] = true
	}
	for _, l := range lb {
		mb[l] = true
	}
	var out []string
	for _, l := range la {
		if !mb[l] {
			out = append(out, "- "+l)
		}
	}
	for _, l := range lb {
		if !ma[l] {
			out = append(out, "+ "+l)
		}
	}
	if len(out) > 6 {
		out = out[:6]
	}
	return out
}

func init() {
	register(&Check{
		Prop:   "C09",
		Shards: shards(8, 16),
		Meta: func(tier string) rt.Meta {
			return rt.Meta{Level: "exploration", MinEvals: 2000, MinDistinct: 20,
				Rule:        "random trees on MemFS/OrefaFS bases; histories of 100 calls over all VFS and File methods issued through rofs.New(base), through every RoFile it returns and (one history in three, MemFS) through the file system returned by RoFS.Sub. Monitors: full base snapshot incl. mtimes before/after every call; mutating calls must fail with errors.Is(fs.ErrPermission); read-only calls must equal the same call on a twin base driven directly. Every tree holds a 32-128 KiB file and every slice a read returned is overwritten by the harness afterwards (a read handing out the base's storage shows as a changed base). In one history in six the base carries the advisory read-only feature flag. Signature = wrapper/base | call kind[flags] | outcome; all are non-trivial (the base holds a random tree).",
				Assumptions: []string{"Chdir/SetUMask forwarded to the base change view state, not the tree, and are applied to the twin as well"}}
		},
		Run: func(c *rt.Ctx) {
			hook.Sequential()
			n := c.Pick(2000, 40000)
			for h := 0; h < n; h++ {
				if h%c.NShards != c.Shard {
					continue
				}
				c09History(c, []string{"MemFS", "OrefaFS"}[h%2], h)
			}
		},
	})
}
