package checks

import (
	"fmt"
	"io/fs"
	"math/rand/v2"
	"strings"
	"syscall"

	"github.com/avfs/avfs"
	"github.com/avfs/avfs/vfs/basepathfs"

	"verif/internal/fsx"
	"verif/internal/gen"
	"verif/internal/hook"
	"verif/internal/rt"
)

const c10Canary = "CANARY-7f3a9"

// c10Prefix rewrites the paths of a call from the virtual namespace into the base file system (harness-side, used only
// to mirror the set-up tree below B).
func c10Prefix(B string, o fsx.Op) fsx.Op {
	o.P = B + o.P
	if o.K == "Rename" || o.K == "Link" {
		o.Q = B + o.Q
	}
	return o
}

func c10History(c *rt.Ctx, fsType string, h int) {
	r := c.Rand(fmt.Sprintf("c10-%s-%d", fsType, h))
	// the last spelling is a directory name made of pattern metacharacters: a base path is a name, never a pattern
	B := []string{"/BASE", "/BASE/sub", "/x/BASE", "/x/[ab]"}[r.IntN(4)]
	base := newBase(fsType)
	ref := newBase(fsType)
	_ = base.MkdirAll(B, 0o755)
	if B == "/x/[ab]" {
		// what the name would match if it were read as a pattern holds the names of the workload
		for _, d := range []string{"/x/a", "/x/b"} {
			_ = base.MkdirAll(d+"/w/a", 0o755)
			for _, f := range []string{"/w/b", "/w/c", "/w/a/a", "/a", "/b"} {
				_ = base.WriteFile(d+f, []byte(c10Canary+"-bytes"), 0o644)
			}
		}
	}
	// B gets the system directories of a standalone file system so that TempDir()-based calls agree
	for _, d := range []struct {
		p string
		m uint32
	}{{"/home", 0o700}, {"/root", 0o700}, {"/tmp", 0o777}} {
		_ = base.Mkdir(B+d.p, 0o777)
		_ = base.Chmod(B+d.p, fs.FileMode(d.m))
	}
	// canaries outside B: names and bytes that occur nowhere inside
	_ = base.WriteFile("/"+c10Canary, []byte(c10Canary+"-bytes"), 0o644)
	_ = base.MkdirAll("/outside/"+c10Canary+"-dir", 0o755)
	_ = base.WriteFile(base.Dir(B)+"/sibling-"+c10Canary, []byte(c10Canary+"-bytes"), 0o644)
	_ = base.WriteFile("/tmp/"+c10Canary, []byte(c10Canary+"-bytes"), 0o644)
	// a sibling whose name merely extends B's as a string, holding the same names as the workload uses inside B
	sibling := B + "-" + c10Canary
	_ = base.MkdirAll(sibling+"/w/a", 0o755)
	for _, f := range []string{"/w/b", "/w/c", "/w/a/a", "/a", "/b"} {
		_ = base.WriteFile(sibling+f, []byte(c10Canary+"-bytes"), 0o644)
	}
	// identical random content inside B and in the reference
	sa, sb := r.Uint64(), r.Uint64()
	tcfg := gen.Cfg{Root: "/w", Names: []string{"a", "b", "c"}, Depth: 3, Links: true, Owners: true, AvoidRootOps: true}
	{
		e, er := fsx.NewEnv(base), fsx.NewEnv(ref)
		_ = base.MkdirAll(B+"/w", 0o755)
		_ = ref.MkdirAll("/w", 0o755)
		g := gen.New(tcfg, rand.New(rand.NewPCG(sa, sb)))
		for i := 0; i < 25; i++ {
			s := fsx.Snap(ref, "/", fsx.SnapOpts{SentMtime: true})
			g.Observe(s.Recs, "/")
			o := g.Next()
			if o.K == "Chdir" || strings.HasPrefix(o.K, "F.") || o.K == "OpenFile" || o.K == "Create" || o.K == "CreateTemp" || o.K == "MkdirTemp" || !strings.HasPrefix(o.P, "/") ||
				((o.K == "Rename" || o.K == "Link") && !strings.HasPrefix(o.Q, "/")) {
				continue
			}
			er.Exec(o)
			e.Exec(c10Prefix(B, o))
		}
		e.CloseAll()
		er.CloseAll()
	}
	// the base directory is given to the constructor under several spellings of the same directory: clean, with a
	// trailing separator, unclean, relative to the current directory of the base (which is "/" at that moment)
	spell := B
	switch r.IntN(5) {
	case 0:
		spell = B + "/"
	case 1:
		spell = "/." + B + "/../" + base.Base(B)
	case 2:
		spell = strings.TrimPrefix(B, "/")
	}
	bp, err := basepathfs.NewWithErr(base, spell)
	if err != nil {
		c.Rep.Inconclusive = append(c.Rep.Inconclusive, "cannot build BasePathFS: "+err.Error())
		return
	}
	insideSnap := func() *fsx.Snapshot {
		s := fsx.Snap(base, B, fsx.SnapOpts{SentMtime: true})
		for i := range s.Recs {
			p := strings.TrimPrefix(s.Recs[i].Path, B)
			if p == "" {
				p = "/"
			}
			s.Recs[i].Path = p
			if s.Recs[i].Class != "" {
				s.Recs[i].Class = strings.TrimPrefix(s.Recs[i].Class, B)
			}
		}
		return s
	}
	outside := func() string {
		return fsx.Snap(base, "/", fsx.SnapOpts{Mtime: true, Skip: []string{B}}).String()
	}
	if a, b := insideSnap().String(), fsx.Snap(ref, "/", fsx.SnapOpts{SentMtime: true}).String(); a != b {
		c.Rep.Inconclusive = append(c.Rep.Inconclusive, "set-up trees differ (harness): "+fmt.Sprint(fsx.Diff(insideSnap(), fsx.Snap(ref, "/", fsx.SnapOpts{SentMtime: true}), false, 4)))
		return
	}
	gcfg := gen.Cfg{Root: "/w", Names: []string{"a", "b", "c"}, Depth: 3, NoChange: true, Links: true, Owners: true, Chdir: true, Specials: true, EmptyPath: false, Unclean: true, AvoidRootOps: true, Handles: true, Temps: true, Walk: true}
	g := gen.New(gcfg, r)
	env, renv := fsx.NewEnv(bp), fsx.NewEnv(ref)
	var hist []string
	replay := func() any {
		return map[string]any{"fs": fsType, "base_dir": B, "base_dir_as_given": spell, "tree_seed": []uint64{sa, sb}, "history": hist}
	}
	hostile := []string{"/..", "/../" + c10Canary, "/../../" + c10Canary, "../" + c10Canary, "../../" + c10Canary, "../../../../" + c10Canary, "/w/../../" + c10Canary, "/../tmp/" + c10Canary,
		B, B + "/w", "/.." + B, "..", "../..", "/../outside", "../outside/" + c10Canary + "-dir", "/w/a/../../../" + c10Canary, "." + B,
		"/..x", "..data", "/...", "/..", "/..cache/y", "...", "/w/..b"}
	before := outside()
	openedWith := map[int]string{}
	namesInside := false
	if fm, ok := avfs.VFS(bp).(interface{ SetFeatures(avfs.Features) error }); ok && fsType == "MemFS" && h%5 == 2 {
		// the feature flags are public and advisory: a wrapper told that it "has" symbolic links still confines. Links
		// with targets outside B are asked for through the wrapper; whether it creates them or not, nothing reached
		// through them may be outside B. (Not compared with the standalone reference, which has real links.)
		_ = fm.SetFeatures(bp.Features() | avfs.FeatSymlink | avfs.FeatHardlink)
		for li, target := range []string{"/" + c10Canary, "/outside", "../../../../" + c10Canary, sibling, sibling + "/w/b", "/", ".."} {
			lk := fmt.Sprintf("/lk%d", li)
			for _, po := range []fsx.Op{{K: "Symlink", P: target, Q: lk}, {K: "Readlink", P: lk}, {K: "ReadFile", P: lk}, {K: "ReadDir", P: lk}, {K: "ReadFile", P: lk + "/w/b"}, {K: "ReadFile", P: lk + "/" + c10Canary},
				{K: "WriteFile", P: lk + "/through-link", Data: "x", Perm: 0o644}, {K: "OpenWriteClose", P: lk, Flag: syscall.O_WRONLY | syscall.O_APPEND, Data: "+"}, {K: "EvalSymlinks", P: lk}, {K: "RemoveAll", P: lk + "/w"}} {
				x := env.Exec(po)
				hist = append(hist, fmt.Sprintf("flagged: %s -> %s", po, x))
				c.Rep.Case(fmt.Sprintf("%s|flagged-symlink|%s|%s", fsType, po.K, x.Err), true)
				if fatalRes(x) {
					return
				}
				if now := outside(); now != before {
					c.Disagree(fmt.Sprintf("%s|flagged-symlink|%s|outside-changed", fsType, po.K), fmt.Sprintf("BasePathFS(%s,%s) told it has symbolic links: %s changed the base file system outside the base directory: %v", fsType, B, po, diffText(before, now)), replay())
					return
				}
				for _, txt := range []string{x.Val, x.Raw} {
					if strings.Contains(txt, c10Canary+"-bytes") || (po.K != "Readlink" && po.K != "Symlink" && strings.Contains(txt, c10Canary) && !strings.Contains(po.P+po.Q, c10Canary)) || (strings.Contains(txt, "BASE") && !strings.Contains(po.P+po.Q, "BASE")) {
						c.Disagree(fmt.Sprintf("%s|flagged-symlink|%s|reads-outside", fsType, po.K), fmt.Sprintf("BasePathFS(%s,%s) told it has symbolic links: %s returns %q: content, names or the path of what exists only outside the base directory", fsType, B, po, txt), replay())
						return
					}
				}
			}
			_ = base.Remove(B + lk) // whatever was created is taken away again from the base side
		}
		if a, b := insideSnap().String(), fsx.Snap(ref, "/", fsx.SnapOpts{SentMtime: true}).String(); a != b {
			c.Disagree(fsType+"|flagged-symlink|inside-changed", fmt.Sprintf("BasePathFS(%s,%s) told it has symbolic links: the calls through links changed the content of the base directory: %v", fsType, B, diffText(b, a)), replay())
			return
		}
	}
	for i := 0; i < 100; i++ {
		s := fsx.Snap(ref, "/", fsx.SnapOpts{SentMtime: true})
		cwd, _ := ref.Getwd()
		g.Observe(s.Recs, cwd)
		o := g.Next()
		if r.IntN(4) == 0 {
			// adversarial spelling of the operand(s)
			if o.P != "" || !strings.HasPrefix(o.K, "F.") {
				o.P = hostile[r.IntN(len(hostile))]
			}
			if o.K == "Rename" || o.K == "Link" {
				if r.IntN(2) == 0 {
					o.Q = hostile[r.IntN(len(hostile))]
				}
			}
			if (o.K == "Remove" || o.K == "RemoveAll" || o.K == "Rename") && (ref.Clean(viewAbs(ref, cwd, o.P)) == "/" || (o.K == "Rename" && ref.Clean(viewAbs(ref, cwd, o.Q)) == "/")) {
				continue // the root as operand of a destructive call is sequentially unsafe on the pinned tree (C07)
			}
		}
		if o.K == "F.Chdir" || o.K == "Getwd" {
			continue
		}
		if r.IntN(12) == 0 {
			// the base file system is still usable directly: its current directory moves outside B (for the wrapper
			// that is the root of B, as for a process whose directory is outside its chroot)
			d := []string{sibling, sibling + "/w", "/outside", "/", base.Dir(B)}[r.IntN(5)]
			if d != B && base.Chdir(d) == nil {
				_ = ref.Chdir("/")
				hist = append(hist, fmt.Sprintf("base-side Chdir(%q)", d))
				before = outside()
			}
			continue
		}
		if o.K == "Rename" && viewAbs(ref, cwd, o.P) == viewAbs(ref, cwd, o.Q) {
			// os.Rename (hence MemFS/OrefaFS) distinguishes a directory renamed onto the identical spelling (EEXIST) from another
			// spelling of the same directory (no-op); the wrapper makes both spellings absolute
			c.Rep.Count("rename_onto_itself_skipped", 1)
			continue
		}
		if fsType == "MemFS" && r.IntN(12) == 0 {
			// Sub through the wrapper: the view it returns is rooted inside B too
			dir := hostile[r.IntN(len(hostile))]
			if r.IntN(2) == 0 {
				dir = g.Path()
			}
			va, ea := bp.Sub(dir)
			vb, eb := ref.Sub(dir)
			hist = append(hist, fmt.Sprintf("Sub(%q) -> %v", dir, ea))
			c.Rep.Case(fmt.Sprintf("%s|Sub|%v", fsType, ea == nil), true)
			if (ea == nil) != (eb == nil) {
				c.Disagree(fmt.Sprintf("%s|Sub|wrapper=%v|standalone=%v", fsType, ea == nil, eb == nil), fmt.Sprintf("BasePathFS(%s,%s): Sub(%q) returns %v but %v on a standalone file system", fsType, B, dir, ea, eb), replay())
				return
			}
			if ea != nil {
				continue
			}
			// a view starts with the current directory string of its parent, whatever it means inside the view: the probes
			// start from its root
			_ = va.Chdir("/")
			_ = vb.Chdir("/")
			ea2, eb2 := fsx.NewEnv(va), fsx.NewEnv(vb)
			for pi, po := range []fsx.Op{{K: "ReadDir", P: "/"}, {K: "ReadDir", P: "."}, {K: "ReadFile", P: "/" + c10Canary}, {K: "ReadFile", P: "/../" + c10Canary}, {K: "ReadFile", P: "../../" + c10Canary},
				{K: "ReadFile", P: "/w/b"}, {K: "ReadFile", P: "b"}, {K: "Stat", P: "/.."}, {K: "WriteFile", P: "/sub-probe", Data: "p", Perm: 0o644}, {K: "Remove", P: "/sub-probe"}, {K: "ReadDir", P: "/.."}} {
				x, y := ea2.Exec(po), eb2.Exec(po)
				hist = append(hist, fmt.Sprintf("  view: %s -> %s", po, x))
				if fatalRes(x) || fatalRes(y) {
					return
				}
				for _, txt := range []string{x.Val, x.Raw} {
					if strings.Contains(txt, c10Canary+"-bytes") || (!namesInside && strings.Contains(txt, c10Canary) && !strings.Contains(po.P, c10Canary)) {
						c.Disagree(fmt.Sprintf("%s|Sub|reads-outside", fsType), fmt.Sprintf("BasePathFS(%s,%s): through the view returned by Sub(%q), %s returns %q: content or names that exist only outside the base directory", fsType, B, dir, po, txt), replay())
						return
					}
				}
				if !x.Same(y) {
					c.Disagree(fmt.Sprintf("%s|Sub|probe%d|wrapper=%s|standalone=%s", fsType, pi, x.Err, y.Err), fmt.Sprintf("BasePathFS(%s,%s): through the view returned by Sub(%q), %s returns %s but %s on a standalone file system", fsType, B, dir, po, x, y), replay())
					return
				}
				if now := outside(); now != before {
					c.Disagree(fmt.Sprintf("%s|Sub|outside-changed", fsType), fmt.Sprintf("BasePathFS(%s,%s): through the view returned by Sub(%q), %s changed the base file system outside the base directory: %v", fsType, B, dir, po, diffText(before, now)), replay())
					return
				}
			}
			continue
		}
		a := env.Exec(o)
		b := renv.Exec(o)
		hist = append(hist, o.String()+" -> "+a.String())
		if fatalRes(a) || fatalRes(b) {
			if fatalRes(a) && !fatalRes(b) {
				c.Disagree("basepath|"+o.K+"|"+a.Err+"-only-through-wrapper", fmt.Sprintf("BasePathFS(%s,%s): %s %ss through the wrapper (%s) but returns %s on a standalone file system", fsType, B, o, a.Err, a.Raw, b), replay())
			}
			c.Rep.Count("histories_ended_by_panic_or_deadlock", 1)
			return
		}
		after := outside()
		sig := fmt.Sprintf("%s|%s|%s", fsType, o.K, a.Err)
		c.Rep.Case(sig, true)
		if after != before {
			c.Disagree(fmt.Sprintf("%s|%s|outside-changed", fsType, o.K), fmt.Sprintf("BasePathFS(%s,%s): %s changed the base file system outside the base directory: %v", fsType, B, o, diffText(before, after)), replay())
			return
		}
		// nothing returned may reveal B or something that exists only outside B. The path(s) given by the caller (for a
		// handle: the path it was opened with) legitimately come back in results and error texts.
		given := o.P + " " + o.Q
		if strings.HasPrefix(o.K, "F.") {
			given = openedWith[o.H]
		} else if o.K == "OpenFile" || o.K == "Create" || o.K == "Open" {
			openedWith[o.H] = o.P
		}
		if a.Err == "ok" && mutatingKind(o) && (strings.Contains(given, c10Canary) || strings.Contains(given, "BASE")) {
			// a canary / base-directory *name* now legitimately exists inside B: from here on only contents are judged
			namesInside = true
		}
		for _, txt := range []string{a.Val, a.Raw} {
			if strings.Contains(txt, c10Canary+"-bytes") {
				c.Disagree(fmt.Sprintf("%s|%s|reads-outside", fsType, o.K), fmt.Sprintf("BasePathFS(%s,%s): %s returns %q: content that exists only outside the base directory", fsType, B, o, txt), replay())
				return
			}
			if namesInside {
				continue
			}
			if (strings.Contains(txt, c10Canary) || strings.Contains(txt, "sibling-")) && !strings.Contains(given, c10Canary) {
				c.Disagree(fmt.Sprintf("%s|%s|reads-outside", fsType, o.K), fmt.Sprintf("BasePathFS(%s,%s): %s returns %q: content or names that exist only outside the base directory", fsType, B, o, txt), replay())
				return
			}
			if strings.Contains(txt, "BASE") && !strings.Contains(given, "BASE") {
				c.Disagree(fmt.Sprintf("%s|%s|reveals-base-path", fsType, o.K), fmt.Sprintf("BasePathFS(%s,%s): %s returns %q, which reveals the base directory", fsType, B, o, txt), replay())
				return
			}
		}
		if (o.K == "CreateTemp" || o.K == "MkdirTemp") && a.Err == "ok" && b.Err == "ok" {
			// random names: remove on both sides
			na, nb := env.Temps[len(env.Temps)-1], renv.Temps[len(renv.Temps)-1]
			if f := env.Files[o.H]; f != nil && o.K == "CreateTemp" {
				_ = f.Close()
				_ = renv.Files[o.H].Close()
				delete(env.Files, o.H)
				delete(renv.Files, o.H)
			}
			env.Exec(fsx.Op{K: "Remove", P: na})
			renv.Exec(fsx.Op{K: "Remove", P: nb})
		}
		if o.K == "F.Name" || o.K == "Abs" {
			continue
		}
		if o.K == "CreateTemp" || o.K == "MkdirTemp" {
			// the returned name is a path: compared for leaks only (spelling of relative directories differs)
			a.Val, b.Val = "", ""
		}
		if !a.Same(b) {
			c.Disagree(fmt.Sprintf("%s|%s|wrapper=%s|standalone=%s", fsType, o.K, a.Err, b.Err), fmt.Sprintf("BasePathFS(%s,%s): %s returns %s but the same call on a standalone file system holding the base directory's content returns %s", fsType, B, o, a, b), replay())
			return
		}
		if o.K == "RemoveAll" && a.Err != "ok" {
			c.Rep.Count("histories_ended_by_failed_removeall", 1)
			return
		}
		sa, sb := insideSnap(), fsx.Snap(ref, "/", fsx.SnapOpts{SentMtime: true})
		if sa.String() != sb.String() {
			c.Disagree(fmt.Sprintf("%s|%s|effect-differs", fsType, o.K), fmt.Sprintf("BasePathFS(%s,%s): after %s the content of the base directory differs from the standalone file system: %v", fsType, B, o, fsx.Diff(sa, sb, true, 6)), replay())
			return
		}
		wa, wb := env.Exec(fsx.Op{K: "Getwd"}).String(), renv.Exec(fsx.Op{K: "Getwd"}).String()
		if wa != wb {
			c.Disagree(fmt.Sprintf("%s|%s|cwd-differs", fsType, o.K), fmt.Sprintf("BasePathFS(%s,%s): after %s Getwd is %q but %q on the standalone file system", fsType, B, o, wa, wb), replay())
			return
		}
	}
	c.Rep.Count("complete_histories", 1)
	c.Rep.Sample(map[string]any{"fs": fsType, "base_dir": B, "last_calls": hist[max(0, len(hist)-5):]}, 3)
}

func init() {
	_ = avfs.FeatSymlink
	register(&Check{
		Prop:   "C10",
		Shards: shards(8, 16),
		Meta: func(tier string) rt.Meta {
			return rt.Meta{Level: "exploration", MinEvals: 2000, MinDistinct: 20,
				Rule:        "bases MemFS/OrefaFS with a base directory B (/BASE, /BASE/sub, /x/BASE, or /x/[ab] - a name made of pattern metacharacters, beside /x/a and /x/b holding the workload's names -, given to the constructor clean, with a trailing separator, unclean or relative) holding a random tree, canary files and directories outside B (among them a sibling directory whose name extends B's as a string and holds the workload's names; the current directory of the base is moved there and elsewhere outside B from the base side); histories of 100 calls (all path-taking calls incl. Glob patterns made from paths of the tree and WalkDir, and File methods; absolute, relative, unclean paths; one call in four gets an adversarial operand: '..'-chains, B's own prefix, canary names) plus Sub through the wrapper with hostile directories and probes through the returned view) issued in lockstep on BasePathFS(base,B) and on a standalone file system holding B's content. In one MemFS history in five the wrapper is told through SetFeatures that it has symbolic links, and links with targets outside B are asked for and used through it. Monitors: snapshot (incl. mtimes) of everything outside B before/after every call; canary/base-path search in every returned value and error text; outcome, content of B and cwd equal to the standalone reference. Chtimes sets two different sentinel times (or only one of the two) and the sentinel modification times of the base directory are compared with the twin's. Signature = base fs | call kind | outcome; all non-trivial.",
				Assumptions: []string{"B's content is symlink-free (BasePathFS removes FeatSymlink)", "File.Name and Abs are checked for leaks only", "the root as operand of Remove/RemoveAll/Rename is left to C07"}}
		},
		Run: func(c *rt.Ctx) {
			hook.Sequential()
			for h := 0; h < c.Pick(800, 30000); h++ {
				if h%c.NShards == c.Shard {
					c10History(c, []string{"MemFS", "OrefaFS"}[h%2], h)
				}
			}
		},
	})
}
