package checks

import (
	"fmt"
	"io/fs"
	"math/rand/v2"
	"strings"
	"syscall"

	"github.com/avfs/avfs"
	"github.com/avfs/avfs/idm/memidm"
	"github.com/avfs/avfs/vfs/memfs"

	"verif/internal/fsx"
	"verif/internal/gen"
	"verif/internal/hook"
	"verif/internal/rt"
)

// newMemWithUsers returns a MemFS whose identity manager holds groups g1,g2 and users u1(g1), u2(g2), u3(g1).
func newMemWithUsers() (*memfs.MemFS, []avfs.UserReader) {
	idm := memidm.New()
	_, _ = idm.AddGroup("g1")
	_, _ = idm.AddGroup("g2")
	u1, _ := idm.AddUser("u1", "g1")
	u2, _ := idm.AddUser("u2", "g2")
	u3, _ := idm.AddUser("u3", "g1")
	// an ordinary user whose primary group is the administrator's group: no privilege comes with the group
	u4, _ := idm.AddUser("u4", idm.AdminGroup().Name())
	v := memfs.NewWithOptions(&memfs.Options{Idm: idm})
	return v, []avfs.UserReader{idm.AdminUser(), u1, u2, u3, u4}
}

// viewAbs resolves a path given to a view into the absolute clean path of the view's namespace.
func viewAbs(v avfs.VFS, cwd, p string) string {
	if strings.HasPrefix(p, "/") {
		return v.Clean(p)
	}
	return v.Join(cwd, p)
}

func c11History(c *rt.Ctx, h int) {
	r := c.Rand(fmt.Sprintf("c11-%d", h))
	P, users := newMemWithUsers()
	Q, usersQ := newMemWithUsers()
	sa, sb := r.Uint64(), r.Uint64()
	tcfg := gen.Cfg{Root: "/w", Names: []string{"a", "b", "c"}, Depth: 3, Links: true, Owners: true, AvoidRootOps: true}
	buildTree(P, rand.New(rand.NewPCG(sa, sb)), tcfg, 25)
	buildTree(Q, rand.New(rand.NewPCG(sa, sb)), tcfg, 25)
	dir := []string{"/", "/w", "/w/a", "/w/a/b"}[r.IntN(4)]
	for _, x := range []avfs.VFS{P, Q} {
		// the view root and its ancestors are searchable directories owned by root
		// whatever is not a directory on the way to dir is removed, then dir itself is recreated empty
		for _, d := range []string{"/w", "/w/a", "/w/a/b"} {
			if strings.HasPrefix(dir+"/", d+"/") {
				if fi, err := x.Lstat(d); err == nil && !fi.IsDir() {
					_ = x.RemoveAll(d)
				}
			}
		}
		if dir != "/" {
			_ = x.RemoveAll(dir)
		}
		_ = x.MkdirAll(dir, 0o755)
		for d := dir; d != "/"; d = x.Dir(d) {
			_ = x.Chmod(d, 0o755)
			_ = x.Chown(d, 0, 0)
		}
		_ = x.Chmod("/", 0o755)
		_ = x.MkdirAll(x.Join(dir, "a"), 0o777)
		_ = x.WriteFile(x.Join(dir, "a", "b"), []byte("seed"), 0o666)
		_ = x.Chmod(x.Join(dir, "a"), 0o777)
	}
	// creating a view is not a call that changes the file system it is created from: its user, umask and current
	// directory (moved away from "/" first) must be what they were
	if dir != "/" && r.IntN(2) == 0 {
		_ = P.Chdir(dir)
		_ = Q.Chdir(dir)
	}
	pu0, pm0, pd0 := P.User().Name(), P.UMask(), mustWd(P)
	V, err := P.Sub(dir)
	if err != nil {
		c.Disagree("setup|sub-fails", fmt.Sprintf("Sub(%q) of an existing directory fails: %v", dir, err), nil)
		return
	}
	sib, _ := P.Sub("/")
	c11SubKeeps := func(who string) bool {
		if P.User().Name() != pu0 || P.UMask() != pm0 || mustWd(P) != pd0 {
			c.Disagree("view-state|sub-changes-its-parent", fmt.Sprintf("Sub(%q): creating a view (%s) changed the file system it was created from: user %s->%s umask %04o->%04o cwd %s->%s", dir, who, pu0, P.User().Name(), uint32(pm0), uint32(P.UMask()), pd0, mustWd(P)), map[string]any{"dir": dir})
			return false
		}
		return true
	}
	if !c11SubKeeps("Sub of the parent") {
		return
	}
	nested := false
	if dir != "/" && r.IntN(3) == 0 {
		// a nested view: view of a view
		base, _ := P.Sub(P.Dir(dir))
		if base != nil {
			if nv, nerr := base.Sub("/" + P.Base(dir)); nerr == nil {
				V, nested = nv, true
			}
		}
	}
	if !c11SubKeeps("nested Sub") {
		return
	}
	C, _ := Q.Sub("/") // counterpart: the twin parent driven with prefixed paths, as the same user
	vcwd := "/"
	_ = V.Chdir("/")
	env, cenv := fsx.NewEnv(V), fsx.NewEnv(C)
	penv, qenv := fsx.NewEnv(P), fsx.NewEnv(Q)
	gcfg := gen.Cfg{Root: "/", Names: []string{"a", "b", "c"}, Depth: 3, NoChange: true, Links: true, Owners: true, Chdir: true, Specials: true, Unclean: true, AvoidRootOps: true, Handles: true, Walk: false}
	g := gen.New(gcfg, r)
	var hist []string
	replay := func() any {
		return map[string]any{"dir": dir, "nested": nested, "tree_seed": []uint64{sa, sb}, "history": hist}
	}
	prefix := func(p string) string { return Q.Join(dir, viewAbs(V, vcwd, p)) }
	curUser := 0
	for i := 0; i < 100; i++ {
		// nothing in this history changes the user, umask or current directory of the parent itself: whatever a call
		// through a view did to them is a leak (and would make the twin parents answer differently from here on)
		if P.User().Name() != pu0 || P.UMask() != pm0 || mustWd(P) != pd0 {
			last := "the set-up"
			if len(hist) > 0 {
				last = hist[len(hist)-1]
			}
			c.Disagree("view-state|leaks-into-parent|history", fmt.Sprintf("Sub(%q): after %s the file system the view was created from has user %s (was %s), umask %04o (was %04o), cwd %s (was %s)", dir, last, P.User().Name(), pu0, uint32(P.UMask()), uint32(pm0), mustWd(P), pd0), replay())
			return
		}
		s := fsx.Snap(Q, dir, fsx.SnapOpts{SentMtime: true})
		// paths of the twin's subtree, expressed in the view's namespace
		var recs []fsx.Rec
		for _, rec := range s.Recs {
			q := strings.TrimPrefix(rec.Path, strings.TrimSuffix(dir, "/"))
			if q == "" {
				q = "/"
			}
			rec.Path = q
			recs = append(recs, rec)
		}
		g.Observe(recs, vcwd)
		if r.IntN(25) == 0 {
			// a view created from the view in the middle of the history: the view it is created from keeps its state
			vu, vm, vd := V.User().Name(), V.UMask(), mustWd(V)
			_, _ = V.Sub("/")
			hist = append(hist, "view: Sub(\"/\")")
			if V.User().Name() != vu || V.UMask() != vm || mustWd(V) != vd {
				c.Disagree("view-state|sub-changes-its-parent", fmt.Sprintf("Sub(%q): creating a view of the view changed it: user %s->%s umask %04o->%04o cwd %s->%s", dir, vu, V.User().Name(), uint32(vm), uint32(V.UMask()), vd, mustWd(V)), replay())
				return
			}
			continue
		}
		switch x := r.IntN(100); {
		case x < 8:
			// per-view setters must not leak into the parent or a sibling view
			pu, pm, pd := P.User().Name(), P.UMask(), mustWd(P)
			su, sm, sd := sib.User().Name(), sib.UMask(), mustWd(sib)
			what := ""
			switch r.IntN(4) {
			case 3:
				// the mode of the view's root directory, changed through the parent (mirrored on the twin): a root that
				// the view's user cannot search or write is an ordinary directory, not the administrator's "/"
				m := []fs.FileMode{0o755, 0o700, 0o600, 0o711, 0, 0o750, 0o555, 0o777}[r.IntN(8)]
				_ = P.Chmod(dir, m)
				_ = Q.Chmod(dir, m)
				what = fmt.Sprintf("parent: Chmod(%q,%04o)", dir, uint32(m))
			case 0:
				curUser = r.IntN(len(users))
				_ = V.SetUser(users[curUser])
				_ = C.SetUser(usersQ[curUser])
				what = "SetUser(" + users[curUser].Name() + ")"
			case 1:
				m := []fs.FileMode{0, 0o002, 0o022, 0o027, 0o077}[r.IntN(5)]
				_ = V.SetUMask(m)
				_ = C.SetUMask(m)
				what = fmt.Sprintf("SetUMask(%04o)", uint32(m))
			default:
				o := fsx.Op{K: "Chdir", P: g.Path()}
				target := viewAbs(V, vcwd, o.P)
				res := env.Exec(o)
				what = o.String() + " -> " + res.Err
				// the same directory change asked of the twin's counterpart view, which is moved back afterwards (it is
				// always given absolute paths)
				cres := cenv.Exec(fsx.Op{K: "Chdir", P: Q.Join(dir, target)})
				_ = C.Chdir("/")
				if !fatalRes(res) && !fatalRes(cres) && res.Err != cres.Err {
					hist = append(hist, "view: "+what)
					c.Disagree(fmt.Sprintf("view|Chdir|view=%s|parent=%s", res.Err, cres.Err), fmt.Sprintf("Sub(%q) as %s: Chdir(%q) returns %s through the view but Chdir(%q) returns %s on the parent", dir, users[curUser].Name(), o.P, res, Q.Join(dir, target), cres), replay())
					return
				}
				if res.Err == "ok" {
					vcwd = target
					if wd, _ := V.Getwd(); wd != target {
						hist = append(hist, "view: "+what)
						c.Disagree("view-state|Getwd-after-Chdir", fmt.Sprintf("Sub(%q): after Chdir(%q) through the view Getwd is %q, want %q", dir, o.P, wd, target), replay())
						return
					}
				}
			}
			hist = append(hist, "view: "+what)
			c.Rep.Case("view-state|"+strings.SplitN(what, "(", 2)[0], true)
			if P.User().Name() != pu || P.UMask() != pm || mustWd(P) != pd {
				c.Disagree("view-state|leaks-into-parent|"+strings.SplitN(what, "(", 2)[0], fmt.Sprintf("Sub(%q): %s on the view changed the parent: user %s->%s umask %04o->%04o cwd %s->%s", dir, what, pu, P.User().Name(), uint32(pm), uint32(P.UMask()), pd, mustWd(P)), replay())
				return
			}
			if sib.User().Name() != su || sib.UMask() != sm || mustWd(sib) != sd {
				c.Disagree("view-state|leaks-into-sibling|"+strings.SplitN(what, "(", 2)[0], fmt.Sprintf("Sub(%q): %s on the view changed a sibling view", dir, what), replay())
				return
			}
			continue
		case x < 20:
			// a change made through the parent (administrator) inside or outside the subtree, mirrored on the twin
			o := g.Next()
			if strings.HasPrefix(o.K, "F.") || o.K == "OpenFile" || o.K == "Chdir" || o.K == "Chmod" || o.K == "Chown" || o.K == "Lchown" || o.K == "Rename" || o.K == "Remove" || o.K == "RemoveAll" {
				continue
			}
			o.P = prefix(o.P)
			if o.Q != "" || o.K == "Link" {
				o.Q = prefix(o.Q)
			}
			a, b := penv.Exec(o), qenv.Exec(o)
			hist = append(hist, "parent: "+o.String()+" -> "+a.Err)
			if fatalRes(a) || fatalRes(b) {
				c.Rep.Count("histories_ended_by_panic_or_deadlock", 1)
				return
			}
			if !a.Same(b) {
				c.Rep.Inconclusive = append(c.Rep.Inconclusive, "twin parents diverged on a parent-side call (harness)")
				return
			}
		default:
			o := g.Next()
			if o.K == "F.Name" || o.K == "F.Chdir" || o.K == "Getwd" || o.K == "Chdir" || o.K == "EvalSymlinks" {
				continue
			}
			co := o
			if o.P != "" || (!strings.HasPrefix(o.K, "F.") && o.K != "Getwd") {
				co.P = prefix(o.P)
			}
			if o.K == "Rename" || o.K == "Link" {
				co.Q = prefix(o.Q)
			}
			if o.K == "Rename" && co.P == co.Q {
				// os.Rename (and therefore MemFS) distinguishes Rename(dir, dir) spelled identically (EEXIST) from the same
				// directory spelled differently (no-op); the prefixed spelling loses that distinction
				c.Rep.Count("rename_onto_itself_skipped", 1)
				continue
			}
			a := env.Exec(o)
			b := cenv.Exec(co)
			hist = append(hist, fmt.Sprintf("view[%s]: %s -> %s", users[curUser].Name(), o, a.Err))
			if fatalRes(a) || fatalRes(b) {
				// a panic or self-deadlock inside avfs is C07's business; the instance may hold leaked locks: stop here
				c.Rep.Count("histories_ended_by_panic_or_deadlock", 1)
				return
			}
			if o.K == "RemoveAll" && a.Err != "ok" {
				// RemoveAll is documented to remove what it can before failing, in no particular order: both sides may
				// legitimately differ from here on
				c.Rep.Count("histories_ended_by_failed_removeall", 1)
				return
			}
			kind := o.K
			sig := fmt.Sprintf("view|%s|%s", kind, a.Err)
			c.Rep.Case(sig, true)
			if !a.Same(b) {
				c.Disagree(fmt.Sprintf("view|%s|view=%s|parent=%s", kind, a.Err, b.Err), fmt.Sprintf("Sub(%q) as %s: %s returns %s through the view but %s returns %s on the parent", dir, users[curUser].Name(), o, a, co, b), replay())
				return
			}
		}
		sp, sq := fsx.Snap(P, "/", fsx.SnapOpts{SentMtime: true}), fsx.Snap(Q, "/", fsx.SnapOpts{SentMtime: true})
		// the twin is itself driven through a view of "/" (it has to carry the user, umask and cwd of the view): what a view
		// and its parent could get wrong *together* - the identity of the nodes each of them creates - is judged on the
		// parent's tree alone, with the C05 public invariants (link counts against SameFile paths, no aliased directory)
		if bad := sp.InvariantProblems(); len(bad) > 0 {
			c.Disagree("view|parent-tree-not-well-formed|"+firstWords(bad[0]), fmt.Sprintf("Sub(%q): after %s the parent's tree is not well formed: %v", dir, hist[len(hist)-1], bad[:min3(4, len(bad))]), replay())
			return
		}
		if sp.String() != sq.String() {
			c.Disagree("view|tree-differs-from-twin|"+strings.SplitN(strings.SplitN(hist[len(hist)-1], ": ", 2)[1], "(", 2)[0], fmt.Sprintf("Sub(%q): after %s the parent's tree differs from the twin driven with prefixed paths: %v", dir, hist[len(hist)-1], fsx.Diff(sp, sq, true, 6)), replay())
			return
		}
	}
	c.Rep.Count("complete_histories", 1)
	c.Rep.Sample(map[string]any{"dir": dir, "nested": nested, "last_calls": hist[max(0, len(hist)-6):]}, 3)
}

// c11Detached: a view whose root directory is removed together with one of its ancestors (RemoveAll of the ancestor
// through the parent, through a view of an enclosing directory, or of the view's root itself). What the view shows
// afterwards is what the parent shows at the prefixed paths: nothing. Every probe through the view must answer as the
// twin parent does for the prefixed path, and the two parents' trees stay equal (nothing can be created in a
// directory that is no longer in the tree).
func c11Detached(c *rt.Ctx, h int) {
	r := c.Rand(fmt.Sprintf("c11-det-%d", h))
	P, _ := newMemWithUsers()
	Q, _ := newMemWithUsers()
	for _, x := range []avfs.VFS{P, Q} {
		_ = x.MkdirAll("/w/a/b/c/d", 0o755)
		_ = x.WriteFile("/w/a/b/f", []byte("f"), 0o644)
		_ = x.WriteFile("/w/a/b/c/g", []byte("g"), 0o644)
		_ = x.MkdirAll("/w/k", 0o755)
	}
	dir := []string{"/w/a/b", "/w/a/b/c", "/w/a", "/w/a/b/c/d"}[r.IntN(4)]
	V, err := P.Sub(dir)
	if err != nil {
		return
	}
	if r.IntN(2) == 0 {
		_ = V.Chdir("/") // a view that has been used before
		_, _ = V.ReadDir("/")
	}
	// an ancestor of the view's root (or the root itself) goes away
	ancestors := []string{"/w"}
	for _, d := range []string{"/w/a", "/w/a/b", "/w/a/b/c", "/w/a/b/c/d"} {
		if strings.HasPrefix(dir+"/", d+"/") {
			ancestors = append(ancestors, d)
		}
	}
	anc := ancestors[r.IntN(len(ancestors))]
	how := r.IntN(3)
	what := ""
	switch how {
	case 0:
		what = fmt.Sprintf("parent.RemoveAll(%q)", anc)
		_ = P.RemoveAll(anc)
		_ = Q.RemoveAll(anc)
	case 1:
		// through a view of the directory above
		up := P.Dir(anc)
		what = fmt.Sprintf("Sub(%q).RemoveAll(%q)", up, "/"+P.Base(anc))
		for _, x := range []avfs.VFS{P, Q} {
			if e, eerr := x.Sub(up); eerr == nil {
				_ = e.RemoveAll("/" + x.Base(anc))
			}
		}
	default:
		what = fmt.Sprintf("parent.RemoveAll(%q) of the content, then Remove", anc)
		for _, x := range []avfs.VFS{P, Q} {
			es, _ := x.ReadDir(anc)
			for _, e := range es {
				_ = x.RemoveAll(x.Join(anc, e.Name()))
			}
			_ = x.Remove(anc)
		}
	}
	hist := []string{fmt.Sprintf("Sub(%q)", dir), what}
	replay := func() any { return map[string]any{"dir": dir, "history": hist} }
	env, qenv := fsx.NewEnv(V), fsx.NewEnv(Q)
	for _, po := range []fsx.Op{{K: "Stat", P: "/"}, {K: "ReadDir", P: "/"}, {K: "Lstat", P: "/f"}, {K: "Mkdir", P: "/n", Perm: 0o755}, {K: "WriteFile", P: "/nf", Data: "x", Perm: 0o644}, {K: "ReadFile", P: "/nf"},
		{K: "Chdir", P: "/"}, {K: "OpenWriteClose", P: "/o", Flag: syscall.O_WRONLY | syscall.O_CREAT, Perm: 0o644, Data: "o"}, {K: "ReadDir", P: "/"}, {K: "Symlink", P: "f", Q: "/l"}, {K: "Rename", P: "/f", Q: "/f2"}} {
		qo := po
		qo.P = Q.Join(dir, po.P)
		if po.K == "Rename" {
			qo.Q = Q.Join(dir, po.Q)
		}
		if po.K == "Symlink" {
			qo.P, qo.Q = po.P, Q.Join(dir, po.Q)
		}
		a, b := env.Exec(po), qenv.Exec(qo)
		if po.K == "Chdir" {
			_ = Q.Chdir("/")
		}
		hist = append(hist, fmt.Sprintf("view: %s -> %s", po, a.Err))
		c.Rep.Case(fmt.Sprintf("view-of-removed-directory|%s|%s", po.K, a.Err), true)
		if fatalRes(a) || fatalRes(b) {
			return // C07's business
		}
		if (a.Err == "ok") != (b.Err == "ok") {
			c.Disagree(fmt.Sprintf("view-of-removed-directory|%s|view=%s|parent=%s", po.K, a.Err, b.Err), fmt.Sprintf("Sub(%q), then %s: %s returns %s through the view but %s returns %s on the parent", dir, what, po, a, qo, b), replay())
			return
		}
	}
	if sp, sq := fsx.Snap(P, "/", fsx.SnapOpts{SentMtime: true}), fsx.Snap(Q, "/", fsx.SnapOpts{SentMtime: true}); sp.String() != sq.String() {
		c.Disagree("view-of-removed-directory|tree-differs-from-twin", fmt.Sprintf("Sub(%q), then %s: after the calls through the view the parent's tree differs from the twin's: %v", dir, what, fsx.Diff(sp, sq, true, 6)), replay())
		return
	}
	c.Rep.Count("detached_view_scenarios", 1)
}

func mustWd(v avfs.VFS) string {
	d, _ := v.Getwd()
	return d
}

func init() {
	register(&Check{
		Prop:   "C11",
		Shards: shards(8, 16),
		Meta: func(tier string) rt.Meta {
			return rt.Meta{Level: "exploration", MinEvals: 2000, MinDistinct: 20,
				Rule:        "twin MemFS instances P and P' with identical random trees and users; every call through V = P.Sub(dir) (dir in /, /w, /w/a, /w/a/b; one history in three through a nested view) is also issued on P' with the dir-prefixed absolute path as the same user and umask; outcome class and values must be equal and the full snapshots of P and P' must be equal after every call (which also shows that nothing outside dir moved). Parent-side calls are mixed in (visibility), per-view SetUser/SetUMask/Chdir are followed by isolation assertions on the parent and a sibling view. Path shapes: absolute, relative to the view's cwd, unclean, '.', '..'. Chdir through the view is also asked of the twin's counterpart view; the mode of the view's root is changed through the parent; user, umask and cwd of the parent itself are asserted unchanged at every step. Plus views whose root directory is removed together with an ancestor (RemoveAll through the parent or through an enclosing view): every probe through the view answers as the twin parent does for the prefixed path. Sentinel modification times set by Chtimes are part of the tree comparison with the twin. Signature = actor | call kind | outcome; all non-trivial (random trees).",
				Assumptions: []string{"symlink-free trees (as the property states)", "temp-name calls and Getwd/EvalSymlinks results are not compared"}}
		},
		Run: func(c *rt.Ctx) {
			hook.Sequential()
			for h := 0; h < c.Pick(1200, 40000); h++ {
				if h%c.NShards == c.Shard {
					c11History(c, h)
				}
			}
			for h := 0; h < c.Pick(800, 16000); h++ {
				if h%c.NShards == c.Shard {
					c11Detached(c, h)
				}
			}
		},
	})
}
