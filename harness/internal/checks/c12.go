package checks

import (
	"fmt"
	"io/fs"
	"math/rand/v2"
	"strings"
	"syscall"

	"github.com/avfs/avfs"
	"github.com/avfs/avfs/vfs/failfs"

	"verif/internal/fsx"
	"verif/internal/gen"
	"verif/internal/hook"
	"verif/internal/rt"
)

// c12Fn maps a call kind of the harness to the FnVFS id of the FailFS method it invokes directly ("" = composite helper
// without an id of its own).
func c12Fn(o fsx.Op) string {
	if strings.HasPrefix(o.K, "F.") {
		n := strings.TrimPrefix(o.K, "F.")
		if n == "WriteString" {
			n = "Write"
		}
		if n == "Name" {
			return "-"
		}
		return "File" + n
	}
	switch o.K {
	case "Create", "Open":
		return "OpenFile"
	case "OpenWriteClose":
		return "OpenFile"
	case "Glob", "Abs", "SetUMask", "UMask", "User", "WriteFile":
		return "-"
	}
	return o.K
}

type c12Consult struct {
	fn   string
	call int // index of the outermost call of the history during which the consultation happened
}

type c12Run struct {
	base    avfs.VFS
	ff      *failfs.FailFS
	env     *fsx.Env
	callIdx int
	log     []c12Consult
	failAt  int    // global consultation index to fail (-1: none)
	failFn  string // fail every consultation of this primitive ("" : none)
	snapAt  string // base snapshot taken inside the callback at the moment of injection
	injErr  error
	injCall int
	injFn   string
	class   int // class of the injected error: 0, 3 opaque, 1 not-exist, 2 permission, 4 exist
}

func (r *c12Run) fn(_ avfs.VFSBase, fn avfs.FnVFS, fp *failfs.FailParam) error {
	i := len(r.log)
	name := fn.String()
	r.log = append(r.log, c12Consult{fn: name, call: r.callIdx})
	if i == r.failAt || (r.failFn != "" && name == r.failFn) {
		r.snapAt = c12Snap(r.base, fsx.SnapOpts{Mtime: true}).String()
		r.injCall, r.injFn = r.callIdx, name
		// the class of the injected error varies with the plan: composites decide about retries and fall-backs with
		// errors.Is(err, fs.ErrNotExist / fs.ErrPermission / fs.ErrExist)
		inner := []error{errInjected, avfs.ErrNoSuchFileOrDir, avfs.ErrPermDenied, errInjected, avfs.ErrFileExists}[r.class%5]
		if fp.NewPath != "" {
			r.injErr = &fs.PathError{Op: fp.Op, Path: fp.Path + " " + fp.NewPath, Err: inner}
		} else {
			r.injErr = &fs.PathError{Op: fp.Op, Path: fp.Path, Err: inner}
		}
		return r.injErr
	}
	return nil
}

// c12Snap takes the monitor's snapshot as the administrator, whoever the history made the acting user meanwhile
// (the identity is view state of the base, which the wrapper forwards to; the tree is what the monitor is about).
func c12Snap(v avfs.VFS, o fsx.SnapOpts) *fsx.Snapshot {
	u := v.User()
	if u != nil && !u.IsAdmin() {
		_ = v.SetUser(c12Admin{})
		defer func() { _ = v.SetUser(u) }()
	}
	return fsx.Snap(v, "/", o)
}

type c12Admin struct{}

func (c12Admin) Name() string  { return "root" }
func (c12Admin) Uid() int      { return 0 }
func (c12Admin) Gid() int      { return 0 }
func (c12Admin) IsAdmin() bool { return true }

func c12Setup(fsType string, sa, sb uint64) (avfs.VFS, gen.Cfg) {
	base := newBase(fsType)
	buildTree(base, rand.New(rand.NewPCG(sa, sb)), treeCfg(fsType), 20)
	cfg := treeCfg(fsType)
	cfg.Chdir, cfg.Temps, cfg.Handles, cfg.Walk, cfg.NoChange = true, true, true, true, true
	return base, cfg
}

// c12GenHistory draws a history once (against a scratch instance) so that every plan replays the same calls.
func c12GenHistory(fsType string, sa, sb uint64, r *rand.Rand, n int) []fsx.Op {
	base, cfg := c12Setup(fsType, sa, sb)
	g := gen.New(cfg, r)
	env := fsx.NewEnv(base)
	var ops []fsx.Op
	// in one history out of three the acting identity changes on the way, twice under the same name with other ids
	// (an account deleted and created again): who the wrapper acts as is who its base would act as
	ids := map[int]fsx.Op{}
	if r.IntN(3) == 0 {
		ids[2+r.IntN(3)] = fsx.Op{K: "SetUser", P: "dup", N: 1001, M: 1001}
		ids[6+r.IntN(3)] = fsx.Op{K: "SetUser", P: "dup", N: 1002, M: 1003}
		ids[10+r.IntN(3)] = fsx.Op{K: "SetUser", P: "root", N: 0, M: 0}
	}
	for len(ops) < n {
		if o, ok := ids[len(ops)]; ok {
			delete(ids, len(ops))
			env.Exec(o)
			ops = append(ops, o, fsx.Op{K: "User"}, fsx.Op{K: "WriteFile", P: "/tmp/by-" + fmt.Sprint(o.N), Data: "x", Perm: 0o644}, fsx.Op{K: "Lstat", P: "/tmp/by-" + fmt.Sprint(o.N)})
			env.Exec(ops[len(ops)-2])
			continue
		}
		s := c12Snap(base, fsx.SnapOpts{SentMtime: true})
		cwd, _ := base.Getwd()
		g.Observe(s.Recs, cwd)
		o := g.Next()
		if o.K == "F.Chdir" || o.K == "F.Name" {
			continue
		}
		res := env.Exec(o)
		if fatalRes(res) {
			break
		}
		if (o.K == "CreateTemp" || o.K == "MkdirTemp") && res.Err == "ok" {
			// temp names are random: the created object is removed right away so that later calls do not depend on it
			if o.K == "CreateTemp" {
				_ = env.Files[o.H].Close()
				delete(env.Files, o.H)
			}
			_ = base.RemoveAll(env.Temps[len(env.Temps)-1])
			ops = append(ops, o, fsx.Op{K: "harness:RemoveLastTemp", H: o.H})
			continue
		}
		ops = append(ops, o)
	}
	return ops
}

func c12Exec(env *fsx.Env, base avfs.VFS, o fsx.Op) fsx.Res {
	if o.K == "harness:RemoveLastTemp" {
		if len(env.Temps) > 0 {
			if f := env.Files[o.H]; f != nil {
				func() {
					defer func() { _ = recover() }()
					_ = f.Close()
				}()
				delete(env.Files, o.H)
			}
			_ = base.RemoveAll(env.Temps[len(env.Temps)-1])
			env.Temps = env.Temps[:len(env.Temps)-1]
		}
		return fsx.Res{Err: "ok"}
	}
	return env.Exec(o)
}

func c12History(c *rt.Ctx, fsType string, h int) {
	r := c.Rand(fmt.Sprintf("c12-%s-%d", fsType, h))
	sa, sb := r.Uint64(), r.Uint64()
	ops := c12GenHistory(fsType, sa, sb, r, 12+r.IntN(14))
	text := opStrings(ops)
	replay := func(plan string, upto int) any {
		return map[string]any{"fs": fsType, "tree_seed": []uint64{sa, sb}, "plan": plan, "history": text[:min3(upto+1, len(text))]}
	}
	// ---- (a) transparency with the always-OK function, and the consultation sequence of the unfailed run ----
	base, _ := c12Setup(fsType, sa, sb)
	twin, _ := c12Setup(fsType, sa, sb)
	run := &c12Run{base: base, failAt: -1}
	run.ff = failfs.New(base)
	_ = run.ff.SetFailFunc(run.fn)
	run.env = fsx.NewEnv(run.ff)
	tenv := fsx.NewEnv(twin)
	var unfailed []fsx.Res
	for i, o := range ops {
		run.callIdx = i
		a := c12Exec(run.env, base, o)
		b := c12Exec(tenv, twin, o)
		unfailed = append(unfailed, a)
		if fatalRes(a) || fatalRes(b) {
			ops = ops[:i]
			break
		}
		c.Rep.Case(fmt.Sprintf("ok-plan|%s|%s|%s", fsType, o.K, a.Err), true)
		if o.K == "CreateTemp" || o.K == "MkdirTemp" {
			a.Val, b.Val = "", ""
		}
		if !a.Same(b) {
			c.Disagree(fmt.Sprintf("ok-plan|%s|%s|failfs=%s|base=%s", fsType, o.K, a.Err, b.Err), fmt.Sprintf("FailFS(%s) with the always-OK function: %s returns %s but %s on the base", fsType, o, a, b), replay("ok", i))
			return
		}
		if o.K == "CreateTemp" || o.K == "MkdirTemp" {
			continue // random names: the harness call that follows removes them on both sides
		}
		sa1, sb1 := c12Snap(base, fsx.SnapOpts{SentMtime: true}), c12Snap(twin, fsx.SnapOpts{SentMtime: true})
		if sa1.String() != sb1.String() {
			c.Disagree(fmt.Sprintf("ok-plan|%s|%s|effect-differs", fsType, o.K), fmt.Sprintf("FailFS(%s) with the always-OK function: after %s the base differs from a twin driven directly: %v", fsType, o, fsx.Diff(sa1, sb1, true, 5)), replay("ok", i))
			return
		}
	}
	run.env.CloseAll()
	tenv.CloseAll()
	consults := run.log
	c.Rep.Count("histories", 1)
	c.Rep.Count("consultations_in_unfailed_runs", int64(len(consults)))
	c.Rep.Sample(map[string]any{"fs": fsType, "history": text, "consultations": fmt.Sprint(consults)}, 2)
	// every direct primitive must consult the callback with its own id during its own call
	for i, o := range ops {
		want := c12Fn(o)
		if want == "-" || o.K == "harness:RemoveLastTemp" || unfailed[i].Err == "nohandle" {
			continue
		}
		found := false
		for _, cs := range consults {
			if cs.call == i && cs.fn == want {
				found = true
			}
		}
		if !found {
			c.Disagree(fmt.Sprintf("consultation-missing|%s|%s", o.K, want), fmt.Sprintf("FailFS(%s): %s reached the base without consulting the failure function with %s", fsType, o, want), replay("ok", i))
		}
	}
	// a composite that succeeded must have shown the primitives it is built on to the failure function (otherwise no plan
	// can make it "fail when a primitive it is built on is made to fail"); names as in avfs.FnVFS
	built := map[string][]string{"Create": {"OpenFile"}, "WriteFile": {"OpenFile", "FileWrite", "FileClose"}, "ReadFile": {"OpenFile", "FileRead"},
		"ReadDir": {"OpenFile", "FileReadDir"}, "MkdirTemp": {"Mkdir"}}
	for i, o := range ops {
		if unfailed[i].Err != "ok" {
			continue
		}
		for _, want := range built[o.K] {
			if want == "FileWrite" && o.Data == "" {
				continue
			}
			found := false
			for _, cs := range consults {
				if cs.call == i && cs.fn == want {
					found = true
				}
			}
			if !found {
				c.Disagree(fmt.Sprintf("composite-hides-primitive|%s|%s", o.K, want), fmt.Sprintf("FailFS(%s): the composite %s succeeded without showing its primitive %s to the failure function: no plan can make it fail there", fsType, o, want), replay("ok", i))
			}
		}
	}
	// ---- (b) every single-fault plan "fail the k-th consultation" ----
	for k := range consults {
		base, _ := c12Setup(fsType, sa, sb)
		fr := &c12Run{base: base, failAt: k, injCall: -1, class: k + h}
		fr.ff = failfs.New(base)
		_ = fr.ff.SetFailFunc(fr.fn)
		fr.env = fsx.NewEnv(fr.ff)
		c.Rep.Count("faults_injected", 1)
		for i, o := range ops {
			fr.callIdx = i
			res := c12Exec(fr.env, base, o)
			if fatalRes(res) {
				break
			}
			if fr.injCall != i {
				continue
			}
			// this is the outermost call during which the failure was injected
			if strings.HasPrefix(o.K, "harness:") {
				break // clean-up step of the harness itself: not judged
			}
			if fr.injFn == "FileClose" && (o.K == "OpenFile" || o.K == "Create" || o.K == "Open" || o.K == "CreateTemp") {
				break // the Close of the handle previously held in the slot, done by the harness: not judged
			}
			cls := []string{"opaque", "not-exist", "permission", "opaque", "exist"}[fr.class%5]
			plan := fmt.Sprintf("fail consultation #%d (%s) with a %s error", k, fr.injFn, cls)
			sig := fmt.Sprintf("single-fault|%s|%s|inject=%s/%s", fsType, o.K, fr.injFn, cls)
			if cls == "exist" && (o.K == "CreateTemp" || o.K == "MkdirTemp") && c12Fn(o) != fr.injFn {
				// a name that is taken is what these two retry on: the single fault is absorbed by design
				c.Rep.Case(sig+"|retried", true)
				break
			}
			c.Rep.Case(sig+"|"+res.Err, true)
			after := c12Snap(base, fsx.SnapOpts{Mtime: true}).String()
			if after != fr.snapAt {
				c.Disagree(sig+"|base-changed-after-injection", fmt.Sprintf("FailFS(%s): %s with %s failing: the base changed after the failure was injected: %v", fsType, o, fr.injFn, diffText(fr.snapAt, after)), replay(plan, i))
			}
			if o.K == "Glob" {
				if res.Err != "ok" {
					c.Disagree(sig+"|glob-reports-io-error", fmt.Sprintf("FailFS(%s): Glob returns %s for an injected I/O failure (its contract allows ErrBadPattern only)", fsType, res), replay(plan, i))
				}
				break
			}
			if res.E == nil {
				c.Disagree(sig+"|not-reported", fmt.Sprintf("FailFS(%s): %s returns no error although %s was made to fail", fsType, o, fr.injFn), replay(plan, i))
			} else if c12Fn(o) == fr.injFn && res.E != fr.injErr {
				c.Disagree(sig+"|other-error-returned", fmt.Sprintf("FailFS(%s): %s returns %v instead of exactly the injected error %v", fsType, o, res.E, fr.injErr), replay(plan, i))
			}
			break
		}
		fr.env.CloseAll()
	}
	// ---- (c) "always fail primitive F": whatever is obtained through the FailFS (files, sub file systems) must consult too ----
	fns := map[string]bool{}
	for _, cs := range consults {
		fns[cs.fn] = true
	}
	for _, extra := range []string{"FileWrite", "FileRead", "FileTruncate", "Mkdir", "Remove", "FileClose"} {
		fns[extra] = true
	}
	for fnName := range fns {
		base, _ := c12Setup(fsType, sa, sb)
		fr := &c12Run{base: base, failAt: -1, failFn: fnName, injCall: -1, class: len(fnName) + h}
		if fr.class%5 == 4 {
			fr.class = 1 // a persistent exist-class error is C07's business (the temp helpers give up after 10000 tries)
		}
		fr.ff = failfs.New(base)
		_ = fr.ff.SetFailFunc(fr.fn)
		fr.env = fsx.NewEnv(fr.ff)
		// the history, then the same kind of calls on objects handed out by the FailFS
		all := append([]fsx.Op{}, ops...)
		all = append(all, fsx.Op{K: "CreateTemp", P: "/tmp", Q: "t*", H: 5}, fsx.Op{K: "F.Write", H: 5, Data: "zz"}, fsx.Op{K: "F.Read", H: 5, N: 2}, fsx.Op{K: "F.Truncate", H: 5, N: 1}, fsx.Op{K: "F.Close", H: 5})
		for i, o := range all {
			fr.callIdx = i
			before := c12Snap(base, fsx.SnapOpts{Mtime: true}).String()
			fr.injCall = -1
			res := c12Exec(fr.env, base, o)
			if fatalRes(res) {
				break
			}
			if c12Fn(o) != fnName || res.Err == "nohandle" {
				continue
			}
			sig := fmt.Sprintf("always-fail|%s|%s|%s", fsType, o.K, fnName)
			c.Rep.Case(sig+"|"+res.Err, true)
			if res.E == nil || res.E != fr.injErr || fr.injCall != i {
				c.Disagree(sig+"|not-refused:"+res.Err, fmt.Sprintf("FailFS(%s) told to fail every %s: %s returns %s instead of the injected error", fsType, fnName, o, res), replay("always fail "+fnName, min3(i, len(text)-1)))
				continue
			}
			after := c12Snap(base, fsx.SnapOpts{Mtime: true}).String()
			if after != before {
				c.Disagree(sig+"|base-changed", fmt.Sprintf("FailFS(%s) told to fail every %s: %s fails as told but the base changed: %v", fsType, fnName, o, diffText(before, after)), replay("always fail "+fnName, min3(i, len(text)-1)))
			}
		}
		// a sub file system obtained through the FailFS
		if fsType == "MemFS" && (fnName == "Mkdir" || fnName == "Remove") {
			if sub, err := fr.ff.Sub("/w"); err == nil {
				senv := fsx.NewEnv(sub)
				o := fsx.Op{K: "Mkdir", P: "/verif-sub-dir", Perm: 0o755}
				if fnName == "Remove" {
					_ = base.WriteFile("/w/verif-sub-file", []byte("x"), 0o644)
					o = fsx.Op{K: "Remove", P: "/verif-sub-file"}
				}
				before := c12Snap(base, fsx.SnapOpts{SentMtime: true}).String()
				res := senv.Exec(o)
				after := c12Snap(base, fsx.SnapOpts{SentMtime: true}).String()
				sig := fmt.Sprintf("always-fail|%s|Sub+%s|%s", fsType, o.K, fnName)
				c.Rep.Case(sig+"|"+res.Err, true)
				if res.E == nil || before != after {
					c.Disagree(sig+"|not-refused:"+res.Err, fmt.Sprintf("FailFS(%s) told to fail every %s: %s through the file system returned by FailFS.Sub returns %s and changes the base", fsType, fnName, o, res), nil)
				}
			}
		}
		fr.env.CloseAll()
	}
	// ---- (d) the supplied read-only function: the base can never change ----
	{
		base, _ := c12Setup(fsType, sa, sb)
		ff := failfs.New(base)
		_ = ff.SetFailFunc(failfs.ReadOnlyFunc)
		env := fsx.NewEnv(ff)
		if h%2 == 1 {
			// two wrappers stacked: an outer FailFS that lets everything through over the read-only one. The base of the
			// outer one is the inner wrapper, whose function still decides
			outer := failfs.New(ff)
			_ = outer.SetFailFunc(failfs.OkFunc)
			env = fsx.NewEnv(outer)
		}
		all := append([]fsx.Op{}, ops...)
		all = append(all, fsx.Op{K: "CreateTemp", P: "/tmp", Q: "t*", H: 5}, fsx.Op{K: "F.Write", H: 5, Data: "zz"}, fsx.Op{K: "WriteFile", P: "/w/ro-probe", Data: "x", Perm: 0o644},
			fsx.Op{K: "Symlink", P: "a", Q: "/w/ro-link"}, fsx.Op{K: "Rename", P: "/w", Q: "/w2"})
		before := c12Snap(base, fsx.SnapOpts{Mtime: true}).String()
		for i, o := range all {
			if o.K == "harness:RemoveLastTemp" {
				continue
			}
			res := env.Exec(o)
			if fatalRes(res) {
				break
			}
			after := c12Snap(base, fsx.SnapOpts{Mtime: true}).String()
			c.Rep.Case(fmt.Sprintf("read-only-plan|%s|%s|%s", fsType, o.K, res.Err), true)
			if after != before {
				c.Disagree(fmt.Sprintf("read-only-plan|%s|%s|base-changed", fsType, o.K), fmt.Sprintf("FailFS(%s) with ReadOnlyFunc: %s changed the base: %v", fsType, o, diffText(before, after)), replay("ReadOnlyFunc", min3(i, len(text)-1)))
				before = after
			}
		}
		if fsType == "MemFS" {
			if sub, err := ff.Sub("/w"); err == nil {
				senv := fsx.NewEnv(sub)
				res := senv.Exec(fsx.Op{K: "Mkdir", P: "/verif-ro-sub", Perm: 0o755})
				after := c12Snap(base, fsx.SnapOpts{Mtime: true}).String()
				c.Rep.Case("read-only-plan|MemFS|Sub+Mkdir|"+res.Err, true)
				if after != before {
					c.Disagree("read-only-plan|MemFS|Sub+Mkdir|base-changed", "FailFS(MemFS) with ReadOnlyFunc: Mkdir through the file system returned by FailFS.Sub changed the base", nil)
				}
			}
		}
		env.CloseAll()
	}
	// ---- (e) the function is changed while handles are open: a call on a handle asks the function installed NOW ----
	{
		base, _ := c12Setup(fsType, sa, sb)
		twin, _ := c12Setup(fsType, sa, sb)
		ff := failfs.New(base)
		env, tenv := fsx.NewEnv(ff), fsx.NewEnv(twin)
		fr := &c12Run{base: base, failAt: -1}
		both := func(o fsx.Op, phase string) {
			a, b := env.Exec(o), tenv.Exec(o)
			c.Rep.Case(fmt.Sprintf("function-changed|%s|%s|%s|%s", fsType, phase, o.K, a.Err), true)
			sa, sb := c12Snap(base, fsx.SnapOpts{SentMtime: true}).String(), c12Snap(twin, fsx.SnapOpts{SentMtime: true}).String()
			if a.Err != b.Err || a.Val != b.Val || sa != sb {
				c.Disagree(fmt.Sprintf("function-changed|%s|%s|%s|wrapped=%s|bare=%s", fsType, phase, o.K, a.Err, b.Err), fmt.Sprintf("FailFS(%s), handle opened under another failure function, function now %s: %s returns %s, on the bare file system %s; %v", fsType, phase, o, a, b, diffText(sa, sb)), nil)
			}
		}
		both(fsx.Op{K: "OpenFile", P: "/tmp/e-handle", Flag: syscall.O_RDWR | syscall.O_CREAT, Perm: 0o644, H: 7}, "none")
		if env.Files[7] == nil || tenv.Files[7] == nil {
			// the generated tree has no usable /tmp: nothing to hold a handle on
			c.Rep.Count("function_changed_scenarios_skipped", 1)
			env.CloseAll()
			tenv.CloseAll()
			return
		}
		both(fsx.Op{K: "F.Write", H: 7, Data: "0123456789"}, "none")
		writes := []fsx.Op{{K: "F.Write", H: 7, Data: "ab"}, {K: "F.WriteString", H: 7, Data: "cd"}, {K: "F.WriteAt", H: 7, Data: "ef", N: int64(1 + r.IntN(12))}, {K: "F.Truncate", H: 7, N: int64(r.IntN(14))},
			{K: "F.Chmod", H: 7, Perm: 0o600}, {K: "F.Chown", H: 7, N: 0, M: 0}, {K: "F.Sync", H: 7}}
		reads := []fsx.Op{{K: "F.ReadAt", H: 7, N: 4, M: 1}, {K: "F.Stat", H: 7}, {K: "F.Seek", H: 7, N: 2, M: 0}, {K: "F.Read", H: 7, N: 3}}
		for round := 0; round < 2; round++ {
			// the supplied read-only function installed after the handle was opened for writing
			_ = ff.SetFailFunc(failfs.ReadOnlyFunc)
			before := c12Snap(base, fsx.SnapOpts{Mtime: true}).String()
			for _, o := range writes {
				res := env.Exec(o)
				after := c12Snap(base, fsx.SnapOpts{Mtime: true}).String()
				c.Rep.Case(fmt.Sprintf("function-changed|%s|read-only|%s|%s", fsType, o.K, res.Err), true)
				if res.E == nil || after != before {
					c.Disagree(fmt.Sprintf("function-changed|%s|read-only|%s|%s|changed=%v", fsType, o.K, res.Err, after != before), fmt.Sprintf("FailFS(%s): ReadOnlyFunc installed after the handle was opened: %s returns %s; base changed: %v", fsType, o, res, diffText(before, after)), nil)
					before = after
				}
			}
			for _, o := range reads {
				both(o, "read-only")
			}
			// a plan that fails one primitive of the File interface, installed after the handle was opened
			for _, o := range writes {
				fr.failFn, fr.log, fr.injErr = c12Fn(o), nil, nil
				if fr.failFn == "" {
					continue
				}
				_ = ff.SetFailFunc(fr.fn)
				res := env.Exec(o)
				after := c12Snap(base, fsx.SnapOpts{Mtime: true}).String()
				c.Rep.Case(fmt.Sprintf("function-changed|%s|plan|%s|%s", fsType, o.K, res.Err), true)
				if fr.injErr == nil || res.E != fr.injErr || after != before {
					c.Disagree(fmt.Sprintf("function-changed|%s|plan|%s|%s|consulted=%v|changed=%v", fsType, o.K, res.Err, fr.injErr != nil, after != before), fmt.Sprintf("FailFS(%s): a function failing every %s installed after the handle was opened: %s returns %s (the function was consulted: %v); base changed: %v", fsType, fr.failFn, o, res, fr.injErr != nil, diffText(before, after)), nil)
					before = after
				}
			}
			// everything let through again: the same handle behaves as one of the bare file system
			_ = ff.SetFailFunc(failfs.OkFunc)
			for _, o := range append(append([]fsx.Op{}, writes...), reads...) {
				both(o, "let-through")
			}
		}
		env.CloseAll()
		tenv.CloseAll()
	}
}

func init() {
	register(&Check{
		Prop:   "C12",
		Shards: shards(8, 16),
		Meta: func(tier string) rt.Meta {
			return rt.Meta{Level: "fault_enumeration", MinEvals: 2000, MinDistinct: 30, Exhaustive: true,
				Rule:        "per history of 12-25 calls over all VFS and File methods on a random tree (MemFS, OrefaFS bases): (a) always-OK function: results and base snapshot equal to a twin base driven directly, and every direct primitive consults the callback with its own FnVFS id, every successful composite (Create, WriteFile, ReadFile, ReadDir, MkdirTemp) shows the primitives it is built on; (b) EVERY single-fault plan 'fail the k-th consultation' (exhaustive per history): the enclosing call must return an error - exactly the injected value for a direct primitive, none for Glob - and the base snapshot taken inside the callback at the moment of injection must equal the snapshot when the call returns; (c) 'fail every consultation of F' for every F seen: every call of that kind, including calls on files and sub file systems handed out by the FailFS, must return the injected error and leave the base untouched; (d) ReadOnlyFunc: the base (incl. mtimes) never changes. The class of the injected error varies with the plan (opaque, not-exist, permission, exist). In one history in three the acting identity is changed on the way (SetUser with made-up identities, twice under one name with other ids); the monitor's snapshots are taken as the administrator. In half of the histories the read-only plan is driven through a second FailFS stacked on the first. (e) the function is changed while a handle is open: ReadOnlyFunc, then a plan failing the very primitive, then OkFunc again - every File call asks the function installed at the time of the call (refused with the base untouched / exactly the injected error / as on a bare twin). Signature = plan kind | base fs | call kind | injected primitive | outcome; all non-trivial.",
				Assumptions: []string{"a single exist-class fault inside CreateTemp/MkdirTemp is absorbed by their documented retry (counted, not judged); persistent exist-class faults are C07's business"}}
		},
		Run: func(c *rt.Ctx) {
			hook.Sequential()
			for h := 0; h < c.Pick(400, 6000); h++ {
				if h%c.NShards == c.Shard {
					c12History(c, []string{"MemFS", "OrefaFS"}[h%2], h)
				}
			}
		},
	})
}
