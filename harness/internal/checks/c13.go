package checks

import (
	"fmt"
	"os"
	"path/filepath"
	"strings"
	"sync/atomic"

	"github.com/avfs/avfs"
	"github.com/avfs/avfs/idm/memidm"
	"github.com/avfs/avfs/vfs/memfs"

	"verif/internal/fsx"
	"verif/internal/hook"
	"verif/internal/rt"
	"verif/internal/winpath"
)

// pathRef is the reference implementation for one OS type.
type pathRef struct {
	name      string
	sep       string
	clean     func(string) string
	join      func(...string) string
	split     func(string) (string, string)
	dir, base func(string) string
	isAbs     func(string) bool
	rel       func(string, string) (string, error)
	fromSlash func(string) string
	toSlash   func(string) string
	volume    func(string) string
	match     func(string, string) (bool, error)
}

var linuxRef = pathRef{name: "Linux", sep: "/", clean: filepath.Clean, join: filepath.Join, split: filepath.Split, dir: filepath.Dir, base: filepath.Base,
	isAbs: filepath.IsAbs, rel: filepath.Rel, fromSlash: filepath.FromSlash, toSlash: filepath.ToSlash, volume: filepath.VolumeName, match: filepath.Match}

var windowsRef = pathRef{name: "Windows", sep: `\`, clean: winpath.Clean, join: winpath.Join, split: winpath.Split, dir: winpath.Dir, base: winpath.Base,
	isAbs: winpath.IsAbs, rel: winpath.Rel, fromSlash: winpath.FromSlash, toSlash: winpath.ToSlash, volume: winpath.VolumeName, match: winpath.Match}

// volClass classifies the volume prefix of a Windows input (findings are keyed by it, not by function).
func volClass(ref *pathRef, s string) string {
	if ref.name != "Windows" {
		return "-"
	}
	switch {
	case len(s) >= 2 && s[1] == ':' && !(s[0] >= 'a' && s[0] <= 'z' || s[0] >= 'A' && s[0] <= 'Z'):
		return "nonletter-drive"
	case len(s) >= 3 && isSepW(s[0]) && s[1] == '?' && s[2] == '?' && (len(s) == 3 || isSepW(s[3])):
		return "root-local-device"
	case len(s) >= 3 && isSepW(s[0]) && isSepW(s[1]) && (s[2] == '.' || s[2] == '?') && (len(s) == 3 || isSepW(s[3])):
		return "device-path"
	case len(s) >= 2 && isSepW(s[0]) && isSepW(s[1]):
		return "unc"
	case len(s) >= 2 && s[1] == ':':
		if strings.Contains(s[2:], ":") {
			return "drive+colon"
		}
		if len(s) >= 5 && isSepW(s[2]) && s[3] == '?' && s[4] == '?' && (len(s) == 5 || isSepW(s[5])) {
			// Dir/Split/Clean hand the part after the drive to the volume rules again: \??\ is a volume there
			return "drive+root-local-device"
		}
		if len(s) >= 4 && isSepW(s[2]) && isSepW(s[3]) {
			return "drive+dblsep"
		}
		return "drive"
	case strings.Contains(s, ":"):
		return "colon"
	case len(s) >= 1 && isSepW(s[0]):
		return "rooted"
	}
	return "plain"
}

func isSepW(c byte) bool { return c == '\\' || c == '/' }

type c13 struct {
	c    *rt.Ctx
	vfs  avfs.VFS
	ref  *pathRef
	seen map[string]bool
}

func safe(f func() string) (s string) {
	defer func() {
		if p := recover(); p != nil {
			s = fmt.Sprintf("PANIC(%v)", p)
		}
	}()
	fsx.BeginCall() // a direct call: the lock-site budget of the sequential hook restarts here
	return f()
}

func (k *c13) cmp(fn, in, got, want string, extraClass string) {
	cls := "differs"
	if strings.HasPrefix(got, "PANIC(") {
		cls = "panics"
	}
	ok := got == want
	outcome := "equal"
	if !ok {
		outcome = cls
	}
	sig := fmt.Sprintf("%s|%s|%s|%s", k.ref.name, fn, extraClass, outcome)
	k.c.Rep.Case(sig, len(in) > 1)
	if !ok {
		k.c.Disagree(sig, fmt.Sprintf("%s-typed MemFS: %s(%s) = %q but path/filepath on %s gives %q", k.ref.name, fn, in, got, k.ref.name, want),
			map[string]any{"os": k.ref.name, "fn": fn, "input": in, "got": got, "want": want})
	}
}

// the call in progress, for the CPU watcher (the functions under test take no lock: a call that never returns is a
// pure CPU loop which only a watcher outside the workload goroutine can see)
var (
	c13Calls atomic.Int64
	c13Cur   atomic.Pointer[string]
)

func c13Mark(format string, args ...any) {
	s := fmt.Sprintf(format, args...)
	c13Cur.Store(&s)
	c13Calls.Add(1)
}

func (k *c13) unary(s string) {
	c13Mark("%s: unary functions of %q", k.ref.name, s)
	v, r := k.vfs, k.ref
	vc := volClass(r, s)
	q := fmt.Sprintf("%q", s)
	k.cmp("Clean", q, safe(func() string { return v.Clean(s) }), r.clean(s), vc)
	k.cmp("Dir", q, safe(func() string { return v.Dir(s) }), r.dir(s), vc)
	k.cmp("Base", q, safe(func() string { return v.Base(s) }), r.base(s), vc)
	k.cmp("IsAbs", q, safe(func() string { return fmt.Sprint(v.IsAbs(s)) }), fmt.Sprint(r.isAbs(s)), vc)
	k.cmp("FromSlash", q, safe(func() string { return v.FromSlash(s) }), r.fromSlash(s), vc)
	k.cmp("ToSlash", q, safe(func() string { return v.ToSlash(s) }), r.toSlash(s), vc)
	k.cmp("VolumeName", q, safe(func() string { return avfs.VolumeName(v, s) }), r.volume(s), vc)
	k.cmp("Split", q, safe(func() string { d, f := v.Split(s); return d + "|" + f }), func() string { d, f := r.split(s); return d + "|" + f }(), vc)
	// Abs: compared where Go's result is determined lexically
	if r.name == "Linux" {
		want, _ := filepath.Abs(s)
		k.cmp("Abs", q, safe(func() string { a, _ := v.Abs(s); return a }), want, vc)
	} else {
		switch {
		case r.isAbs(s):
			k.cmp("Abs", q, safe(func() string { a, _ := v.Abs(s); return a }), r.clean(s), vc)
		case vc == "plain":
			cwd, _ := v.Getwd()
			k.cmp("Abs", q, safe(func() string { a, _ := v.Abs(s); return a }), r.join(cwd, s), vc)
		default:
			k.c.Rep.Count("abs_inputs_out_of_reach", 1)
		}
	}
}

func errStr(err error) string {
	if err == nil {
		return "nil"
	}
	if err == filepath.ErrBadPattern {
		return "ErrBadPattern"
	}
	return "err"
}

func (k *c13) binary(a, b string) {
	c13Mark("%s: Join/Rel/Match of (%q, %q)", k.ref.name, a, b)
	v, r := k.vfs, k.ref
	vc := volClass(r, a) + "," + volClass(r, b)
	q := fmt.Sprintf("%q,%q", a, b)
	k.cmp("Join", q, safe(func() string { return v.Join(a, b) }), r.join(a, b), vc)
	wantRel := ""
	if c13RefRelLoops(r, a, b) {
		// path/filepath.Rel of the toolchain itself does not terminate on this pair (a UNC volume and the root of the same
		// volume): the reference is not called; the two operands name the same directory, the answer is "."
		wantRel = ".|nil"
		k.c.Rep.Count("rel_pairs_on_which_the_toolchain_loops", 1)
	} else {
		x, err := r.rel(a, b)
		wantRel = x + "|" + errStr(err)
	}
	k.cmp("Rel", q, safe(func() string { x, err := v.Rel(a, b); return x + "|" + errStr(err) }), wantRel, vc)
	k.cmp("Match", q, safe(func() string { x, err := v.Match(a, b); return fmt.Sprint(x) + "|" + errStr(err) }), func() string { x, err := r.match(a, b); return fmt.Sprint(x) + "|" + errStr(err) }(), vc)
}

// c13RefRelLoops tells whether Rel of the reference would spin forever: base is a bare UNC-like volume (longer than a
// drive) and targ is the root directory of the same volume - after the volume is cut both are a single separator and the
// element loop of Rel never ends.
func c13RefRelLoops(r *pathRef, a, b string) bool {
	if r.name != "Windows" {
		return false
	}
	bv, tv := r.volume(a), r.volume(b)
	if len(bv) <= 2 || !strings.EqualFold(bv, tv) {
		return false
	}
	base, targ := r.clean(a), r.clean(b)
	if strings.EqualFold(base, targ) {
		return false
	}
	return base[len(bv):] == "" && targ[len(tv):] == `\`
}

var c13Alphabet = []string{"a", "B", ".", "/", `\`, ":", "?", "*", "[", "]", "-", "^", "é"}

func enumStrings(alpha []string, maxLen int, f func(string)) {
	var rec func(prefix string, n int)
	rec = func(prefix string, n int) {
		f(prefix)
		if n == maxLen {
			return
		}
		for _, a := range alpha {
			rec(prefix+a, n+1)
		}
	}
	rec("", 0)
}

var c13Seeds = []string{`C:`, `c:\`, `\\host\share`, `\\?\C:\`, `\\.\pipe`, `\??\C:`, `\\?\UNC\h\s`, `..`, `.`, `a/b`, `a\b`, `/`, `\`, `//`, `[a-z]`, `[^x]`, `\*`, `*`, `?`,
	`abc/def/../ghi`, `../../x`, `C:a`, `C:/a/../..`, `\\a\b\..\c`, `a//b`, `a/./b/`, `[]a]`, `[-]`, `[x-]`, `a*b?c`, `é/é`, `NUL`, `COM1`, `\\.\C:\x`, `//./x`, `\\`, `\\a`,
	// the volume keywords are matched without regard to case
	`\\.\unc\h\s`, `\\.\UnC\a\b`, `//./unc/x/y`, `\\.\UNC\h\s\..\z`, `\\?\unc\h\s`, `c:`, `C:\`, `\\.\Unc`, `\\.\uNc\`}

func (k *c13) fuzz(n int) {
	r := k.c.Rand("fuzz-" + k.ref.name)
	gen := func() string {
		var sb strings.Builder
		parts := 1 + r.IntN(6)
		for i := 0; i < parts; i++ {
			switch r.IntN(4) {
			case 0:
				sb.WriteString(c13Seeds[r.IntN(len(c13Seeds))])
			default:
				for j := 0; j < 1+r.IntN(5); j++ {
					sb.WriteString(c13Alphabet[r.IntN(len(c13Alphabet))])
				}
			}
		}
		s := sb.String()
		if len(s) > 40 {
			s = s[:40]
		}
		return s
	}
	for i := 0; i < n; i++ {
		a := gen()
		k.unary(a)
		if i%2 == 0 {
			k.binary(a, gen())
		}
		if i%16 == 0 {
			k.triple(a, gen(), gen())
		}
	}
}

func (k *c13) triple(a, b, d string) {
	c13Mark("%s: Join(%q, %q, %q)", k.ref.name, a, b, d)
	q := fmt.Sprintf("%q,%q,%q", a, b, d)
	vc := volClass(k.ref, a) + "," + volClass(k.ref, b) + "," + volClass(k.ref, d)
	k.cmp("Join3", q, safe(func() string { return k.vfs.Join(a, b, d) }), k.ref.join(a, b, d), vc)
}

// ---- PathIterator ----

func (k *c13) partsOf(p string) []string {
	vl := avfs.VolumeNameLen(k.vfs, p)
	rest := p[vl:]
	rest = strings.TrimPrefix(rest, k.ref.sep)
	if rest == "" {
		return nil
	}
	return strings.Split(rest, k.ref.sep)
}

func (k *c13) iterate(p string, repls []string) {
	c13Mark("%s: PathIterator over %q", k.ref.name, p)
	v := k.vfs
	want := k.partsOf(p)
	fail := func(kind, what string) {
		k.c.Disagree(fmt.Sprintf("%s|PathIterator|%s", k.ref.name, kind), fmt.Sprintf("%s-typed MemFS: PathIterator(%q): %s", k.ref.name, p, what), map[string]any{"os": k.ref.name, "path": p})
	}
	res := safe(func() string {
		pi := avfs.NewPathIterator(v, p)
		var got []string
		for pi.Next() {
			got = append(got, pi.Part())
			if pi.Left()+pi.Part()+pi.Right() != pi.Path() {
				return fmt.Sprintf("reassembly: Left %q + Part %q + Right %q != Path %q", pi.Left(), pi.Part(), pi.Right(), pi.Path())
			}
			if pi.IsLast() != (len(got) == len(want)) {
				return fmt.Sprintf("IsLast()=%v at part %d of %d", pi.IsLast(), len(got), len(want))
			}
			if len(got) > len(want)+2 {
				break
			}
		}
		if strings.Join(got, "\x00") != strings.Join(want, "\x00") {
			return fmt.Sprintf("parts %q, want %q", got, want)
		}
		return ""
	})
	k.c.Rep.Case(fmt.Sprintf("%s|PathIterator|parts=%d", k.ref.name, len(want)), len(want) > 0)
	if res != "" {
		kind := "parts"
		if strings.HasPrefix(res, "PANIC") {
			kind = "panics"
		} else if strings.HasPrefix(res, "reassembly") {
			kind = "reassembly"
		}
		fail(kind, res)
		return
	}
	// splice a replacement at every part
	for idx := range want {
		for _, np := range repls {
			res := safe(func() string {
				pi := avfs.NewPathIterator(v, p)
				for i := 0; i <= idx; i++ {
					pi.Next()
				}
				left, right := pi.Left(), pi.Right()
				var wantPath string
				if v.IsAbs(np) {
					wantPath = v.Join(np, right)
				} else {
					wantPath = v.Join(left, np, right)
				}
				reset := pi.ReplacePart(np)
				if pi.Path() != wantPath {
					return fmt.Sprintf("ReplacePart(%q) at part %d gives path %q, want Join of the pieces %q", np, idx, pi.Path(), wantPath)
				}
				newParts := k.partsOf(wantPath)
				var rest []string
				n := 0
				for pi.Next() {
					rest = append(rest, pi.Part())
					if pi.Left()+pi.Part()+pi.Right() != pi.Path() {
						return "reassembly after ReplacePart"
					}
					n++
					if n > len(newParts)+2 {
						break
					}
				}
				all := strings.Join(newParts, "\x00")
				got := strings.Join(rest, "\x00")
				okFromStart := got == all
				okContinue := false
				if idx <= len(newParts) && strings.Join(newParts[:idx], "\x00") == strings.Join(want[:idx], "\x00") {
					okContinue = got == strings.Join(newParts[idx:], "\x00")
				}
				if !okFromStart && !okContinue {
					return fmt.Sprintf("after ReplacePart(%q) at part %d (reset=%v) the iterator yields %q; new path %q has parts %q", np, idx, reset, rest, wantPath, newParts)
				}
				return ""
			})
			k.c.Rep.Case(fmt.Sprintf("%s|ReplacePart|idx=%d|abs=%v", k.ref.name, min3(idx, 3), v.IsAbs(np)), true)
			if res != "" {
				kind := "splice"
				if strings.HasPrefix(res, "PANIC") {
					kind = "panics"
				}
				k.c.Disagree(fmt.Sprintf("%s|ReplacePart|%s", k.ref.name, kind), fmt.Sprintf("%s-typed MemFS: PathIterator(%q): %s", k.ref.name, p, res), map[string]any{"os": k.ref.name, "path": p, "replacement": np, "index": idx})
				return
			}
		}
	}
}

func init() {
	register(&Check{
		Prop:   "C13",
		Shards: shards(2, 16),
		Meta: func(tier string) rt.Meta {
			return rt.Meta{Level: "exploration", MinEvals: 50000, MinDistinct: 20, Exhaustive: true,
				Rule:        "differential against the toolchain: T=Linux path/filepath of the host; T=Windows a copy of the toolchain's internal/filepathlite + path/filepath Windows code generated by scripts/gen_winpath.py (self-tested). Exhaustive over all strings up to the length bound over a 13-symbol alphabet (unary functions), all pairs up to a smaller bound plus asymmetric pairs (<=1 with <=4/5 symbols, <=2 with <=3/4, both orders) (Join, Rel, Match), then seeded random inputs of length <= 40. PathIterator: all clean absolute paths over {a,b,sep,.} up to 7 symbols, every part index x every replacement string. Pairs of names over runes whose Unicode case folding differs from lower-casing (long s, Kelvin sign, dotted I, final sigma). On odd shards the file system is constructed with an identity manager of the other OS type (the lexical functions follow Options.OSType). Signature = OS type | function | volume-prefix class of the input(s) | outcome; non-trivial = input longer than one byte. 'exhaustive' refers to the enumerated part.",
				Assumptions: []string{"Windows Abs is compared only where Go's result is lexical (absolute inputs, plain relative inputs)", "the reference is generated from the toolchain that builds the harness (" + "go version in evidence notes)"}}
		},
		Run: func(c *rt.Ctx) {
			hook.Sequential()
			_ = os.Chdir("/")
			rt.CPUWatch(20, c13Calls.Load, func() string { return *c13Cur.Load() }, func(desc string) {
				c.Disagree("no-return|"+strings.SplitN(desc, " of ", 2)[0], "a lexical path call consumed more than 20 s of CPU time without returning (inputs of at most 40 bytes normally take microseconds): "+desc, map[string]any{"call": desc})
				c.EmitAndExit()
			})
			if avfs.BuildFeatures()&avfs.FeatSetOSType == 0 {
				c.Rep.Inconclusive = append(c.Rep.Inconclusive, "harness built without the avfs_setostype tag")
				return
			}
			for ti, ref := range []*pathRef{&linuxRef, &windowsRef} {
				osType := avfs.OsLinux
				if ref.name == "Windows" {
					osType = avfs.OsWindows
				}
				v := memfs.NewWithOptions(&memfs.Options{OSType: osType})
				if c.Shard%2 == 1 {
					// the lexical functions follow the OS type asked of the constructor, also when the identity manager
					// handed to it is of the other type (odd shards run everything on such an instance)
					other := avfs.OsWindows
					if osType == avfs.OsWindows {
						other = avfs.OsLinux
					}
					v = memfs.NewWithOptions(&memfs.Options{OSType: osType, Idm: memidm.NewWithOptions(&memidm.Options{OSType: other})})
				}
				if v.OSType() != osType || string(v.PathSeparator()) != ref.sep {
					c.Disagree(ref.name+"|construction", fmt.Sprintf("a MemFS created with OSType %s reports %s and separator %q", ref.name, v.OSType(), string(v.PathSeparator())), nil)
					continue
				}
				k := &c13{c: c, vfs: v, ref: ref}
				// shard the enumerations by index
				i := 0
				enumStrings(c13Alphabet, c.Pick(5, 6), func(s string) {
					i++
					if i%c.NShards == c.Shard {
						k.unary(s)
					}
				})
				var small []string
				enumStrings(c13Alphabet, c.Pick(2, 3), func(s string) { small = append(small, s) })
				for ai, a := range small {
					if ai%c.NShards != c.Shard {
						continue
					}
					for _, b := range small {
						k.binary(a, b)
					}
				}
				// asymmetric pairs: a short element with a longer one, in both orders (a separator or a drive joined with a
				// device / root-local-device / UNC prefix needs 1 + 3..5 symbols)
				for _, ab := range [][2]int{{1, c.Pick(4, 5)}, {2, c.Pick(3, 4)}} {
					var short []string
					enumStrings(c13Alphabet, ab[0], func(s string) { short = append(short, s) })
					n := 0
					enumStrings(c13Alphabet, ab[1], func(b string) {
						n++
						if n%c.NShards != c.Shard || len(b) <= c.Pick(2, 3) {
							return
						}
						for _, a := range short {
							k.binary(a, b)
							k.binary(b, a)
						}
					})
				}
				if c.Shard == 0 {
					var tiny []string
					enumStrings(c13Alphabet, 1, func(s string) { tiny = append(tiny, s) })
					for _, a := range tiny {
						for _, b := range tiny {
							for _, d := range tiny {
								k.triple(a, b, d)
							}
						}
					}
				}
				// runes whose Unicode simple case folding is not what lower-casing gives (long s, Kelvin sign, dotted capital I,
				// final sigma, sharp s): names are compared with folding on Windows, exactly on Linux
				if c.Shard == 0 {
					folds := []string{"s", "S", "\u017f", "k", "K", "\u212a", "i", "I", "\u0130", "\u0131", "\u03c3", "\u03c2", "\u03a3", "\u00df", "\u1e9e", "\u00e9", "\u00c9", "\u00b5", "\u03bc"}
					roots := []string{ref.sep, "C:" + ref.sep, ref.sep + ref.sep + "h" + ref.sep + "s" + ref.sep, ""}
					for _, rt := range roots {
						for _, x := range folds {
							for _, y := range folds {
								k.binary(rt+x, rt+y)
								k.binary(rt+"d"+ref.sep+x+ref.sep+"e", rt+"d"+ref.sep+y+ref.sep+"f")
								k.binary(ref.sep+ref.sep+x+ref.sep+"s"+ref.sep+"a", ref.sep+ref.sep+y+ref.sep+"s"+ref.sep+"b")
							}
						}
					}
				}
				k.fuzz(c.Pick(300000, 12000000) / c.NShards)
				// PathIterator
				sep := ref.sep
				root := sep
				if ref.name == "Windows" {
					root = `C:` + sep
				}
				var repls []string
				enumStrings([]string{"a", sep, "."}, 3, func(s string) {
					if s != "" {
						repls = append(repls, s)
					}
				})
				repls = append(repls, root+"a", root+"b"+sep+"a", root, ".."+sep+"a", "..")
				j := 0
				enumStrings([]string{"a", "b", sep, "."}, c.Pick(6, 7), func(s string) {
					p := root + s
					if v.Clean(p) != p {
						return
					}
					j++
					if j%c.NShards == c.Shard {
						k.iterate(p, repls)
					}
				})
				_ = ti
			}
		},
	})
}
