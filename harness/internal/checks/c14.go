package checks

import (
	"errors"
	"fmt"
	"io/fs"
	"path/filepath"
	"strings"
	"syscall"

	"github.com/avfs/avfs"
	"github.com/avfs/avfs/vfs/basepathfs"
	"github.com/avfs/avfs/vfs/failfs"
	"github.com/avfs/avfs/vfs/rofs"

	"verif/internal/fsx"
	"verif/internal/gen"
	"verif/internal/hook"
	"verif/internal/kern"
	"verif/internal/rt"
)

var errWalkSentinel = errors.New("verif: stop walking")

type walkVisit struct {
	path string
	typ  string
	err  string
}

// walkWith runs WalkDir with a callback that returns action at visit index cut (cut < 0: never).
func walkWith(v avfs.VFS, root string, cut int, action error) (visits []string, ret string) {
	defer func() {
		if p := recover(); p != nil {
			ret = fmt.Sprintf("PANIC(%v)", p)
		}
	}()
	i := 0
	fsx.BeginCall() // a direct call: the lock-site budget of the sequential hook restarts here
	err := v.WalkDir(root, func(path string, d fs.DirEntry, werr error) error {
		if strings.Contains(path, fsx.NoncePrefix) {
			return nil
		}
		t := "-"
		if d != nil {
			t = d.Type().String()[:1]
			if d.Type()&fs.ModeSymlink != 0 {
				t = "L"
			}
		}
		visits = append(visits, path+":"+t+":"+fsx.ErrClass(werr))
		idx := i
		i++
		if i > 3000 {
			return errors.New("walk budget exceeded")
		}
		if idx == cut {
			return action
		}
		if werr != nil {
			// an unreadable directory (or a failing root): carry on with the rest
			if d != nil && d.IsDir() {
				return fs.SkipDir
			}
			return nil
		}
		return nil
	})
	switch {
	case err == nil:
		ret = "nil"
	case err == errWalkSentinel:
		ret = "sentinel"
	case err == fs.SkipDir:
		ret = "SkipDir"
	case err == fs.SkipAll:
		ret = "SkipAll"
	default:
		ret = "err:" + fsx.ErrClass(err)
	}
	return visits, ret
}

func c14Patterns(g *gen.G, r interface{ IntN(int) int }, recs []fsx.Rec) []string {
	pats := []string{"/w/*", "/w/*/*", "/w/?", "/w/[a-c]", "/w/[^a]", "/w/a*", "/w/*/a", "/w/*/*/*", "/*", "/w/\\*", "/w/[", "/w/a[", "/w/[]", "w/*", "*", "/w/[a-", "/w/a/[b-c]*", "/w/*a", "/w/**", "/w/a", "/w/zz", "/w/a/b/c", "/w/[x]", "/w/??", "/", "/w/*/[ab]"}
	for i := 0; i < 10 && len(recs) > 0; i++ {
		p := recs[r.IntN(len(recs))].Path
		// replace one component by a metacharacter form
		parts := strings.Split(p, "/")
		if len(parts) > 1 {
			j := 1 + r.IntN(len(parts)-1)
			parts[j] = []string{"*", "?", "[a-c]", "[^b]", parts[j] + "*", "?" + parts[j][min3(1, len(parts[j])):]}[r.IntN(6)]
			pats = append(pats, strings.Join(parts, "/"))
		}
	}
	// escapes without any other metacharacter (in the last component, in the directory part, in both; trailing backslash)
	esc := func(name string) string {
		if name == "" {
			return name
		}
		k := r.IntN(len(name))
		return name[:k] + "\\" + name[k:]
	}
	for i := 0; i < 8 && len(recs) > 0; i++ {
		parts := strings.Split(recs[r.IntN(len(recs))].Path, "/")
		if len(parts) < 2 {
			continue
		}
		switch r.IntN(4) {
		case 0:
			parts[len(parts)-1] = esc(parts[len(parts)-1])
		case 1:
			j := 1 + r.IntN(len(parts)-1)
			parts[j] = esc(parts[j])
		case 2:
			for j := 1; j < len(parts); j++ {
				parts[j] = esc(parts[j])
			}
		default:
			parts[1] = esc(parts[1])
			parts[len(parts)-1] = "*"
		}
		pats = append(pats, strings.Join(parts, "/"))
	}
	pats = append(pats, "/w/a\\", "/w\\/a", "/w/\\zz", "\\w")
	// doubled separators: at the very start (what dir+"/*" gives for dir "/"), in the middle, before and after a
	// metacharacter, trailing (a trailing separator after a literal name is left out: the kernel refuses it on a file,
	// the emulation reads it as its Clean() form by the convention stated in C01)
	pats = append(pats, "//*", "//w/*", "//*/a", "//[w]", "//w", "///*", "/w//*", "/w//a*", "/w/*//a", "/w/*/", "/w/a*/", "//", "//w//*//*")
	return pats
}

// c14Ops holds the calls that built the last tree (agreeing calls only), so that the tree can be rebuilt elsewhere.
var c14Ops []fsx.Op

func c14Tree(c *rt.Ctx, l *lockstep, fsType string, h int) bool {
	c14Ops = []fsx.Op{{K: "Mkdir", P: "/w", Perm: 0o755}}
	r := c.Rand(fmt.Sprintf("c14-%s-%d", fsType, h))
	if err := l.reset(0o022); err != nil {
		c.Rep.Inconclusive = append(c.Rep.Inconclusive, "kernel reset failed: "+err.Error())
		return false
	}
	cfg := c01Cfg(fsType)
	cfg.Temps, cfg.Chdir, cfg.Specials = false, false, false
	g := gen.New(cfg, r)
	for _, o := range []fsx.Op{{K: "Mkdir", P: "/w", Perm: 0o755}} {
		l.emu.Exec(o)
		l.osx.Exec(o)
	}
	n := 8 + r.IntN(40)
	for i := 0; i < n; i++ {
		_, b := l.snaps()
		g.Observe(b.Recs, "/")
		o := g.Next()
		if !isMutating(o.K) || o.K == "Chown" || o.K == "Lchown" || o.K == "Chmod" {
			continue
		}
		ra, rb := l.emu.Exec(o), l.osx.Exec(o)
		c14Ops = append(c14Ops, o)
		if !ra.Same(rb) || fatalRes(ra) {
			// a C01 disagreement: rebuild would be needed; simply stop growing this tree if the trees now differ
			sa, sb := l.snaps()
			if sa.String() != sb.String() || fatalRes(ra) {
				return false
			}
		}
	}
	sa, sb := l.snaps()
	return sa.String() == sb.String()
}

func c14Compare(c *rt.Ctx, l *lockstep, name string, v avfs.VFS, fsType string, h int, adminView bool) {
	r := c.Rand(fmt.Sprintf("c14q-%s-%d", fsType, h))
	osv := l.osx.FS
	snap := fsx.Snap(osv, "/", fsx.SnapOpts{})
	replay := func(extra map[string]any) any {
		extra["fs"] = name
		extra["tree"] = snap.Lines(false)
		return extra
	}
	// --- Glob
	g := gen.New(c01Cfg(fsType), r)
	for _, pat := range c14Patterns(g, r, snap.Recs) {
		var ga, gb []string
		var ea, eb error
		pa := safe(func() string { ga, ea = v.Glob(pat); return "" })
		gb, eb = osv.Glob(pat)
		if gb != nil {
			kept := gb[:0]
			for _, m := range gb {
				if !strings.Contains(m, fsx.NoncePrefix) {
					kept = append(kept, m)
				}
			}
			gb = kept
			if len(gb) == 0 {
				// only the harness's own nonce entry matched (its name is random: a link to "/" and a pattern such as
				// *a meet it in one run out of sixteen): no match is reported as nil
				gb = nil
			}
		}
		cls := "plain"
		switch {
		case strings.ContainsAny(pat, "*?["):
			cls = "meta"
		}
		if !strings.HasPrefix(pat, "/") {
			cls += ",rel"
		}
		sig := fmt.Sprintf("%s|Glob|%s|matches=%d|%s", name, cls, min3(len(gb), 3), fsx.ErrClass(eb))
		c.Rep.Case(sig, len(gb) > 0)
		if pa != "" || fsx.ErrClass(ea) != fsx.ErrClass(eb) || strings.Join(ga, "\x00") != strings.Join(gb, "\x00") || (ga == nil) != (gb == nil) {
			c.Disagree(fmt.Sprintf("%s|Glob|%s|differs", name, cls), fmt.Sprintf("%s: Glob(%q) returns %q, %v %s but filepath.Glob on the same tree returns %q, %v", name, pat, ga, ea, pa, gb, eb), replay(map[string]any{"pattern": pat}))
		}
	}
	// --- ReadDir of every directory and of a few non-directories
	for _, rec := range snap.Recs {
		if rec.Type != "d" && r.IntN(4) != 0 {
			continue
		}
		a := fsx.NewEnv(v).Exec(fsx.Op{K: "ReadDir", P: rec.Path})
		b := fsx.NewEnv(osv).Exec(fsx.Op{K: "ReadDir", P: rec.Path})
		c.Rep.Case(fmt.Sprintf("%s|ReadDir|%s|%s", name, rec.Type, b.Err), true)
		if !a.Same(b) {
			c.Disagree(fmt.Sprintf("%s|ReadDir|%s|differs", name, rec.Type), fmt.Sprintf("%s: ReadDir(%q) returns %s but os.ReadDir returns %s", name, rec.Path, a, b), replay(map[string]any{"path": rec.Path}))
		}
	}
	// --- WalkDir with every cut point x {SkipDir, SkipAll, error}
	roots := []string{"/w", "/"}
	if len(snap.Recs) > 3 {
		roots = append(roots, snap.Recs[1+r.IntN(len(snap.Recs)-1)].Path, "/w/zz")
	}
	for _, root := range roots {
		full, _ := walkWith(osv, root, -1, nil)
		for cut := -1; cut < len(full); cut++ {
			for ai, action := range []error{fs.SkipDir, fs.SkipAll, errWalkSentinel} {
				if cut == -1 && ai > 0 {
					continue
				}
				va, ra := walkWith(v, root, cut, action)
				vb, rb := walkWith(osv, root, cut, action)
				an := []string{"SkipDir", "SkipAll", "error"}[ai]
				if cut == -1 {
					an = "none"
				}
				what := "file"
				if cut >= 0 && cut < len(full) {
					if strings.Contains(full[cut], ":d:") {
						what = "dir"
					}
					if cut == 0 {
						what = "root-" + what
					}
				}
				c.Rep.Case(fmt.Sprintf("%s|WalkDir|%s@%s|%s", name, an, what, rb), cut >= 0)
				if ra != rb || strings.Join(va, " ") != strings.Join(vb, " ") {
					c.Disagree(fmt.Sprintf("%s|WalkDir|%s@%s|differs", name, an, what), fmt.Sprintf("%s: WalkDir(%q) with the callback returning %s at visit %d visits %v and returns %s; filepath.WalkDir visits %v and returns %s", name, root, an, cut, va, ra, vb, rb), replay(map[string]any{"root": root, "cut": cut, "action": an}))
				}
			}
		}
	}
	// --- helpers agree with Stat/ReadDir of the same file system
	for i := 0; i < 12; i++ {
		p := g.Path()
		if len(snap.Recs) > 0 && r.IntN(2) == 0 {
			p = snap.Recs[r.IntN(len(snap.Recs))].Path
		}
		fsx.BeginCall()
		fi, serr := v.Stat(p)
		ex, exErr := avfs.Exists(v, p)
		de, deErr := avfs.DirExists(v, p)
		isd, isdErr := avfs.IsDir(v, p)
		wantEx := serr == nil
		wantDe := serr == nil && fi.IsDir()
		bad := ""
		if ex != wantEx || (exErr != nil) != (serr != nil && !errors.Is(serr, fs.ErrNotExist)) {
			bad = fmt.Sprintf("Exists=%v,%v", ex, exErr)
		}
		if de != wantDe {
			bad += fmt.Sprintf(" DirExists=%v,%v", de, deErr)
		}
		if (isdErr == nil) != (serr == nil) || (serr == nil && isd != fi.IsDir()) {
			bad += fmt.Sprintf(" IsDir=%v,%v", isd, isdErr)
		}
		if serr == nil {
			emp, empErr := avfs.IsEmpty(v, p)
			want := false
			if fi.IsDir() {
				fsx.BeginCall()
				es, rerr := v.ReadDir(p)
				want = rerr == nil && len(es) == 0
				if rerr != nil && empErr == nil {
					bad += " IsEmpty-hides-ReadDir-error"
				}
			} else {
				want = fi.Size() == 0
			}
			if empErr == nil && emp != want {
				bad += fmt.Sprintf(" IsEmpty=%v", emp)
			}
		}
		c.Rep.Case(fmt.Sprintf("%s|helpers|exists=%v dir=%v", name, wantEx, wantDe), true)
		if bad != "" {
			c.Disagree(fmt.Sprintf("%s|helpers|%s", name, strings.Fields(bad)[0][:min3(8, len(strings.Fields(bad)[0]))]), fmt.Sprintf("%s: for %q Stat says (%v, %v) but the helpers say%s", name, p, fi != nil, serr, bad), replay(map[string]any{"path": p}))
		}
	}
}

func init() {
	register(&Check{
		Prop:   "C14",
		Chroot: true,
		Shards: shards(12, 16),
		Meta: func(tier string) rt.Meta {
			return rt.Meta{Level: "exploration", MinEvals: 5000, MinDistinct: 50,
				Rule:        "random trees of 5-45 nodes built in lockstep on the emulated file system and on the kernel (verified equal before use; MemFS trees contain symbolic links, incl. links to directories and dangling ones); one tree in 75 also holds a directory of 600 entries (names whose byte order differs from their numeric and case-insensitive order); on each tree: ~55 glob patterns (names of the tree with components replaced by *, ?, classes, negated classes, escapes (also escape-only patterns without any other metacharacter), malformed patterns, doubled separators at the start, in the middle and around metacharacters, relative patterns) against filepath.Glob; ReadDir of every directory (names, order, types) against os.ReadDir; WalkDir from several roots with the callback returning SkipDir / SkipAll / an error at EVERY visit index (exhaustive per tree) against filepath.WalkDir (visit sequence with types and error arguments, and return value); Exists/DirExists/IsDir/IsEmpty against Stat/ReadDir of the same file system. File systems: MemFS, OrefaFS, RoFS and FailFS over them, BasePathFS over MemFS (in half of those the current directory of the base is in a sibling whose path starts with the base path). Signature = file system | function | pattern or cut-point class | outcome; non-trivial = at least one match / a real cut point.",
				Assumptions: []string{"unreadable directories for a non-administrator are covered by the random part of C03 (ReadDir) and not re-walked here"}}
		},
		Timeout: func(tier string) int {
			if tier == "thorough" {
				return 3000
			}
			return 900
		},
		Run: func(c *rt.Ctx) {
			hook.Sequential()
			syscall.Umask(0o022)
			_ = kern.InChroot()
			_ = filepath.Separator
			n := c.Pick(1800, 24000)
			for h := 0; h < n; h++ {
				if h%c.NShards != c.Shard {
					continue
				}
				fsType := []string{"MemFS", "OrefaFS"}[h%2]
				l := &lockstep{c: c, fsType: fsType, symSize: true}
				if !c14Tree(c, l, fsType, h) {
					c.Rep.Count("trees_discarded_c01_disagreement", 1)
					continue
				}
				if (h/c.NShards)%75 == 3 {
					// a directory of several hundred entries (every seventh a directory; names whose byte order differs from
					// their numeric and case-insensitive order), on both sides: listings, patterns and walks over it
					big := []fsx.Op{{K: "Mkdir", P: "/big", Perm: 0o755}}
					for i := 0; i < 600; i++ {
						name := fmt.Sprintf("/big/e%03d", i*7%1000)
						switch {
						case i%97 == 0:
							name = fmt.Sprintf("/big/E%d", i)
						case i%89 == 0:
							name = fmt.Sprintf("/big/e-%d", i)
						case i%83 == 0:
							name = fmt.Sprintf("/big/\u00e9%d", i)
						}
						if i%7 == 0 {
							big = append(big, fsx.Op{K: "Mkdir", P: name, Perm: 0o755})
						} else {
							big = append(big, fsx.Op{K: "WriteFile", P: name, Data: "b", Perm: 0o644})
						}
					}
					same := true
					for _, o := range big {
						if !l.emu.Exec(o).Same(l.osx.Exec(o)) {
							same = false
						}
					}
					if !same {
						c.Rep.Count("trees_discarded_c01_disagreement", 1)
						continue
					}
					c14Ops = append(c14Ops, big...)
					c.Rep.Count("trees_with_a_large_directory", 1)
				}
				c.Rep.Count("trees", 1)
				base := l.emu.FS
				c14Compare(c, l, fsType, base, fsType, h, true)
				if h%3 == 0 {
					c14Compare(c, l, "RoFS("+fsType+")", rofs.New(base), fsType, h, true)
				}
				if h%3 == 1 {
					c14Compare(c, l, "FailFS("+fsType+")", failfs.New(base), fsType, h, true)
				}
				if h%3 == 2 && fsType == "OrefaFS" {
					// BasePathFS: the kernel-side tree is the content of the base directory. The (symlink-free) tree is rebuilt
					// below /B of a fresh file system by replaying its construction with prefixed absolute paths.
					b2 := newBase("MemFS")
					e2 := fsx.NewEnv(b2)
					_ = b2.MkdirAll("/B", 0o755)
					for _, d := range []struct {
						p string
						m fs.FileMode
					}{{"/B/home", 0o700}, {"/B/root", 0o700}, {"/B/tmp", 0o777}} {
						_ = b2.Mkdir(d.p, 0o777)
						_ = b2.Chmod(d.p, d.m)
					}
					okb := true
					for _, o := range c14Ops {
						if !strings.HasPrefix(o.P, "/") || ((o.K == "Rename" || o.K == "Link") && !strings.HasPrefix(o.Q, "/")) {
							okb = false
							break
						}
						e2.Exec(c10Prefix("/B", o))
					}
					e2.CloseAll()
					if h%4 < 2 {
						// the current directory of the base is in a sibling whose path merely starts with the base path: for the
						// wrapper that is outside, relative patterns and paths are relative to the root of the base directory
						_ = b2.MkdirAll("/B2/w/a", 0o755)
						_ = b2.WriteFile("/B2/w/zz-only-in-sibling", []byte("x"), 0o644)
						_ = b2.Chdir("/B2")
					}
					if bp, err := basepathfs.NewWithErr(b2, "/B"); err == nil && okb {
						c14Compare(c, l, "BasePathFS(MemFS,/B)", bp, fsType, h, true)
					}
				}
			}
		},
	})
}
