package checks

import (
	"errors"
	"fmt"
	"os"
	"sort"
	"strings"
	"time"

	"github.com/anishathalye/porcupine"
	"github.com/avfs/avfs"
	"github.com/avfs/avfs/idm/memidm"

	"verif/internal/fsx"
	"verif/internal/hook"
	"verif/internal/rt"
	"verif/internal/sched"
)

// ---- reference model: two maps and the set of ids ever handed out ----

type idmModel struct {
	groups   map[string]int    // name -> gid
	users    map[string][2]int // name -> uid, gid
	usedGids map[int]bool
	usedUids map[int]bool
}

// the names of the administrator user and group of the identity manager under test ("root"/"root" for the Linux
// type; the Windows-typed part, run by a worker of the avfs_setostype build, sets the names of that type)
var c15AdminUser, c15AdminGroup = "root", "root"

// c15NewIdm creates the identity manager under test: Linux-typed by default, Windows-typed in the os part.
var c15NewIdm = func() *memidm.MemIdm { return memidm.New() }

func newIdmModel() *idmModel {
	return &idmModel{groups: map[string]int{c15AdminGroup: 0}, users: map[string][2]int{c15AdminUser: {0, 0}}, usedGids: map[int]bool{0: true}, usedUids: map[int]bool{0: true}}
}

func (m *idmModel) clone() *idmModel {
	n := &idmModel{groups: map[string]int{}, users: map[string][2]int{}, usedGids: map[int]bool{}, usedUids: map[int]bool{}}
	for k, v := range m.groups {
		n.groups[k] = v
	}
	for k, v := range m.users {
		n.users[k] = v
	}
	for k := range m.usedGids {
		n.usedGids[k] = true
	}
	for k := range m.usedUids {
		n.usedUids[k] = true
	}
	return n
}

func (m *idmModel) key() string {
	var p []string
	for k, v := range m.groups {
		p = append(p, fmt.Sprintf("g:%s=%d", k, v))
	}
	for k, v := range m.users {
		p = append(p, fmt.Sprintf("u:%s=%d:%d", k, v[0], v[1]))
	}
	for k := range m.usedGids {
		p = append(p, fmt.Sprintf("G%d", k))
	}
	for k := range m.usedUids {
		p = append(p, fmt.Sprintf("U%d", k))
	}
	sort.Strings(p)
	return strings.Join(p, ",")
}

type idmOp struct {
	K    string // AddGroup AddUser DelGroup DelUser LookupGroup LookupGroupId LookupUser LookupUserId
	Name string
	Grp  string
	Id   int
}

func (o idmOp) String() string {
	switch o.K {
	case "AddUser":
		return fmt.Sprintf("AddUser(%q,%q)", o.Name, o.Grp)
	case "LookupGroupId", "LookupUserId":
		return fmt.Sprintf("%s(%d)", o.K, o.Id)
	}
	return fmt.Sprintf("%s(%q)", o.K, o.Name)
}

// idmOut is the observed result of a call.
type idmOut struct {
	Err   string // "", "exists-group", "exists-user", "unknown-group", "unknown-user", "unknown-gid", "unknown-uid", "other:..."
	Name  string
	Uid   int
	Gid   int
	Admin bool
}

func (o idmOut) String() string {
	if o.Err != "" {
		return o.Err
	}
	return fmt.Sprintf("ok{%s uid=%d gid=%d admin=%v}", o.Name, o.Uid, o.Gid, o.Admin)
}

func idmErr(err error, arg string, id int) string {
	var (
		e1 avfs.AlreadyExistsGroupError
		e2 avfs.AlreadyExistsUserError
		e3 avfs.UnknownGroupError
		e4 avfs.UnknownUserError
		e5 avfs.UnknownGroupIdError
		e6 avfs.UnknownUserIdError
	)
	switch {
	case err == nil:
		return ""
	case errors.As(err, &e1):
		return "exists-group:" + string(e1)
	case errors.As(err, &e2):
		return "exists-user:" + string(e2)
	case errors.As(err, &e3):
		return "unknown-group:" + string(e3)
	case errors.As(err, &e4):
		return "unknown-user:" + string(e4)
	case errors.As(err, &e5):
		return fmt.Sprintf("unknown-gid:%d", int(e5))
	case errors.As(err, &e6):
		return fmt.Sprintf("unknown-uid:%d", int(e6))
	}
	return "other:" + err.Error()
}

func idmExec(idm *memidm.MemIdm, o idmOp) (out idmOut) {
	defer func() {
		if p := recover(); p != nil {
			out = idmOut{Err: fmt.Sprintf("panic:%v", p)}
		}
	}()
	fsx.BeginCall() // the lock-site budget of the sequential hook is per call
	switch o.K {
	case "AddGroup":
		g, err := idm.AddGroup(o.Name)
		if err != nil {
			return idmOut{Err: idmErr(err, o.Name, 0)}
		}
		return idmOut{Name: g.Name(), Gid: g.Gid(), Uid: -1}
	case "AddUser":
		u, err := idm.AddUser(o.Name, o.Grp)
		if err != nil {
			return idmOut{Err: idmErr(err, o.Name, 0)}
		}
		return idmOut{Name: u.Name(), Uid: u.Uid(), Gid: u.Gid(), Admin: u.IsAdmin()}
	case "DelGroup":
		return idmOut{Err: idmErr(idm.DelGroup(o.Name), o.Name, 0), Uid: -1, Gid: -1}
	case "DelUser":
		return idmOut{Err: idmErr(idm.DelUser(o.Name), o.Name, 0), Uid: -1, Gid: -1}
	case "LookupGroup":
		g, err := idm.LookupGroup(o.Name)
		if err != nil {
			return idmOut{Err: idmErr(err, o.Name, 0)}
		}
		return idmOut{Name: g.Name(), Gid: g.Gid(), Uid: -1}
	case "LookupGroupId":
		g, err := idm.LookupGroupId(o.Id)
		if err != nil {
			return idmOut{Err: idmErr(err, "", o.Id)}
		}
		return idmOut{Name: g.Name(), Gid: g.Gid(), Uid: -1}
	case "LookupUser":
		u, err := idm.LookupUser(o.Name)
		if err != nil {
			return idmOut{Err: idmErr(err, o.Name, 0)}
		}
		return idmOut{Name: u.Name(), Uid: u.Uid(), Gid: u.Gid(), Admin: u.IsAdmin()}
	case "LookupUserId":
		u, err := idm.LookupUserId(o.Id)
		if err != nil {
			return idmOut{Err: idmErr(err, "", o.Id)}
		}
		return idmOut{Name: u.Name(), Uid: u.Uid(), Gid: u.Gid(), Admin: u.IsAdmin()}
	}
	return idmOut{Err: "harness:unknown"}
}

// step applies a call to the model: it returns whether the observed output is legal and the successor state.
// Only what the property states is encoded: a fresh id is any id never handed out before.
func (m *idmModel) step(o idmOp, out idmOut) (bool, *idmModel, string) {
	switch o.K {
	case "AddGroup":
		if _, ok := m.groups[o.Name]; ok {
			return out.Err == "exists-group:"+o.Name, m, "want AlreadyExistsGroupError"
		}
		if out.Err != "" {
			return false, m, "want success"
		}
		if out.Name != o.Name || m.usedGids[out.Gid] {
			return false, m, "want the group's name and a gid never used before"
		}
		n := m.clone()
		n.groups[o.Name] = out.Gid
		n.usedGids[out.Gid] = true
		return true, n, ""
	case "AddUser":
		gid, gok := m.groups[o.Grp]
		_, uok := m.users[o.Name]
		if !gok || uok {
			okErr := false
			if !gok && out.Err == "unknown-group:"+o.Grp {
				okErr = true
			}
			if uok && out.Err == "exists-user:"+o.Name {
				okErr = true
			}
			return okErr, m, "want UnknownGroupError / AlreadyExistsUserError"
		}
		if out.Err != "" {
			return false, m, "want success"
		}
		if out.Name != o.Name || out.Gid != gid || m.usedUids[out.Uid] {
			return false, m, "want the user's name, the gid of its group and a uid never used before"
		}
		if out.Admin != (out.Uid == 0) {
			return false, m, "IsAdmin must be true exactly for the administrator user"
		}
		n := m.clone()
		n.users[o.Name] = [2]int{out.Uid, out.Gid}
		n.usedUids[out.Uid] = true
		return true, n, ""
	case "DelGroup":
		if _, ok := m.groups[o.Name]; !ok {
			return out.Err == "unknown-group:"+o.Name, m, "want UnknownGroupError"
		}
		if out.Err != "" {
			return false, m, "want success"
		}
		n := m.clone()
		delete(n.groups, o.Name)
		return true, n, ""
	case "DelUser":
		if _, ok := m.users[o.Name]; !ok {
			return out.Err == "unknown-user:"+o.Name, m, "want UnknownUserError"
		}
		if out.Err != "" {
			return false, m, "want success"
		}
		n := m.clone()
		delete(n.users, o.Name)
		return true, n, ""
	case "LookupGroup":
		gid, ok := m.groups[o.Name]
		if !ok {
			return out.Err == "unknown-group:"+o.Name, m, "want UnknownGroupError"
		}
		return out.Err == "" && out.Name == o.Name && out.Gid == gid, m, fmt.Sprintf("want group %s gid %d", o.Name, gid)
	case "LookupGroupId":
		for n, g := range m.groups {
			if g == o.Id {
				return out.Err == "" && out.Name == n && out.Gid == g, m, fmt.Sprintf("want group %s gid %d", n, g)
			}
		}
		return out.Err == fmt.Sprintf("unknown-gid:%d", o.Id), m, "want UnknownGroupIdError"
	case "LookupUser":
		u, ok := m.users[o.Name]
		if !ok {
			return out.Err == "unknown-user:"+o.Name, m, "want UnknownUserError"
		}
		return out.Err == "" && out.Name == o.Name && out.Uid == u[0] && out.Gid == u[1] && out.Admin == (u[0] == 0), m, fmt.Sprintf("want user %s %v admin=%v", o.Name, u, u[0] == 0)
	case "LookupUserId":
		for n, u := range m.users {
			if u[0] == o.Id {
				return out.Err == "" && out.Name == n && out.Uid == u[0] && out.Gid == u[1] && out.Admin == (u[0] == 0), m, fmt.Sprintf("want user %s %v", n, u)
			}
		}
		return out.Err == fmt.Sprintf("unknown-uid:%d", o.Id), m, "want UnknownUserIdError"
	}
	return false, m, "?"
}

var idmNames = []string{"root", "alice", "bob", "carol"}
var idmIds = []int{0, 1000, 1001, 1002, 1003, 1004, 7}

func idmGen(r interface{ IntN(int) int }) idmOp {
	n := idmNames[r.IntN(len(idmNames))]
	switch r.IntN(12) {
	case 0, 1:
		return idmOp{K: "AddGroup", Name: n}
	case 2, 3, 4:
		return idmOp{K: "AddUser", Name: n, Grp: idmNames[r.IntN(len(idmNames))]}
	case 5:
		return idmOp{K: "DelGroup", Name: n}
	case 6, 7:
		return idmOp{K: "DelUser", Name: n}
	case 8:
		return idmOp{K: "LookupGroup", Name: n}
	case 9:
		return idmOp{K: "LookupGroupId", Id: idmIds[r.IntN(len(idmIds))]}
	case 10:
		return idmOp{K: "LookupUser", Name: n}
	default:
		return idmOp{K: "LookupUserId", Id: idmIds[r.IntN(len(idmIds))]}
	}
}

// c15Sequential runs one sequential history of n calls against the model. churn biases the generator towards adding
// and deleting (thousands of successful deletions on one instance: anything the implementation does every so many
// operations - rebuilding or shrinking its maps - happens inside the history).
func c15Sequential(c *rt.Ctx, h, n int, churn bool) {
	r := c.Rand(fmt.Sprintf("seq-%d-%d", n, h))
	idm := c15NewIdm()
	m := newIdmModel()
	var hist []string
	if au := idm.AdminUser(); au.Uid() != 0 || au.Gid() != 0 || !au.IsAdmin() || au.Name() != c15AdminUser || idm.AdminGroup().Gid() != 0 {
		c.Disagree("seq|admin-missing", "the administrator user/group (id 0) do not exist from the start", nil)
	}
	dels := 0
	for i := 0; i < n; i++ {
		o := idmGen(r)
		if churn {
			name := idmNames[r.IntN(len(idmNames))]
			switch x := r.IntN(12); {
			case x < 4:
				o = idmOp{K: "AddUser", Name: name, Grp: idmNames[r.IntN(len(idmNames))]}
			case x < 8:
				o = idmOp{K: "DelUser", Name: name}
			case x < 9:
				o = idmOp{K: "AddGroup", Name: name}
			case x < 10:
				o = idmOp{K: "DelGroup", Name: name}
			}
		}
		out := idmExec(idm, o)
		if (o.K == "DelUser" || o.K == "DelGroup") && out.Err == "" {
			dels++
		}
		hist = append(hist, o.String()+" -> "+out.String())
		ok, nm, why := m.step(o, out)
		cls := out.Err
		if j := strings.IndexByte(cls, ':'); j > 0 {
			cls = cls[:j]
		}
		if cls == "" {
			cls = "ok"
		}
		sig := fmt.Sprintf("seq|%s|%s", o.K, cls)
		if churn {
			sig = fmt.Sprintf("seq-long|%s|%s|deletions>=%d", o.K, cls, min3(dels/256, 8)*256)
		}
		c.Rep.Case(sig, i > 0)
		if !ok {
			c.Disagree(sig+"|model-disagrees:"+why, fmt.Sprintf("MemIdm: %s returns %s, %s", o, out, why), map[string]any{"history": hist})
			return
		}
		m = nm
		// by-name and by-id lookups agree with the model for every name and id of the pool
		for _, n := range idmNames {
			for _, q := range []idmOp{{K: "LookupGroup", Name: n}, {K: "LookupUser", Name: n}} {
				qo := idmExec(idm, q)
				if ok, _, why := m.step(q, qo); !ok {
					c.Disagree("seq|sweep|"+q.K+"|after:"+o.K, fmt.Sprintf("MemIdm: after %s, %s returns %s, %s", o, q, qo, why), map[string]any{"history": hist})
					return
				}
			}
		}
		ids := append([]int{}, idmIds...)
		for _, g := range m.groups {
			ids = append(ids, g)
		}
		for _, u := range m.users {
			ids = append(ids, u[0])
		}
		for _, id := range ids {
			for _, q := range []idmOp{{K: "LookupGroupId", Id: id}, {K: "LookupUserId", Id: id}} {
				qo := idmExec(idm, q)
				if ok, _, why := m.step(q, qo); !ok {
					c.Disagree("seq|sweep|"+q.K+"|after:"+o.K, fmt.Sprintf("MemIdm: after %s, %s returns %s, %s", o, q, qo, why), map[string]any{"history": hist})
					return
				}
			}
		}
		// the administrator is the identity with id 0 created with the identity manager, whatever happened to its name
		if what := func() (what string) {
			defer func() {
				if p := recover(); p != nil {
					what = fmt.Sprint("the accessors panic: ", p)
				}
			}()
			au, ag := idm.AdminUser(), idm.AdminGroup()
			if au == nil || ag == nil {
				return "AdminUser() or AdminGroup() is nil"
			}
			if au.Uid() != 0 || au.Gid() != 0 || !au.IsAdmin() || au.Name() != c15AdminUser || ag.Gid() != 0 || ag.Name() != c15AdminGroup {
				return fmt.Sprintf("AdminUser() = {%s uid=%d gid=%d admin=%v}, AdminGroup() = {%s gid=%d}", au.Name(), au.Uid(), au.Gid(), au.IsAdmin(), ag.Name(), ag.Gid())
			}
			return ""
		}(); what != "" {
			c.Disagree("seq|admin-accessors|after:"+o.K, fmt.Sprintf("MemIdm: after %s %s", o, what), map[string]any{"history": hist})
			return
		}
		if bad := idm.VerifCheck(); len(bad) > 0 {
			c.Disagree("seq|internal-maps|after:"+o.K, fmt.Sprintf("MemIdm: after %s the internal maps are out of step: %v", o, bad), map[string]any{"history": hist})
			return
		}
	}
	if churn {
		c.Rep.Count("long_histories", 1)
		c.Rep.Count("successful_deletions_in_long_histories", int64(dels))
		return
	}
	c.Rep.Sample(map[string]any{"kind": "sequential history (first 8 calls)", "calls": hist[:8]}, 2)
}

// ---- concurrent histories under the deterministic scheduler, judged by porcupine ----

type idmEvent struct {
	op   idmOp
	out  idmOut
	call int64
	ret  int64
	w    int
}

var idmPorcupine = porcupine.Model{
	Init: func() interface{} { return newIdmModel() },
	Step: func(state, input, output interface{}) (bool, interface{}) {
		ok, n, _ := state.(*idmModel).step(input.(idmOp), output.(idmOut))
		return ok, n
	},
	Equal: func(a, b interface{}) bool { return a.(*idmModel).key() == b.(*idmModel).key() },
	DescribeOperation: func(in, out interface{}) string {
		return in.(idmOp).String() + " -> " + out.(idmOut).String()
	},
}

func c15Concurrent(c *rt.Ctx, h int, seenInter map[uint64]bool) {
	r := c.Rand(fmt.Sprintf("conc-%d", h))
	nw := 2 + r.IntN(3)
	progs := make([][]idmOp, nw)
	for w := range progs {
		for i := 0; i < 2+r.IntN(3); i++ {
			progs[w] = append(progs[w], idmGen(r))
		}
	}
	// a shared prefix makes the window interesting: some groups/users exist already
	setup := []idmOp{{K: "AddGroup", Name: "alice"}, {K: "AddUser", Name: "bob", Grp: "alice"}}
	runOne := func(choose func(e *sched.Exec, enabled []int) int) (*sched.Exec, []idmEvent, *memidm.MemIdm, sched.Verdict, string) {
		idm := c15NewIdm()
		var evs []idmEvent
		for _, o := range setup {
			out := idmExec(idm, o)
			evs = append(evs, idmEvent{op: o, out: out, call: int64(len(evs)*2 - 100), ret: int64(len(evs)*2 - 99), w: 99})
		}
		var e *sched.Exec
		bodies := make([]func(int), nw)
		results := make([][]idmEvent, nw)
		for w := 0; w < nw; w++ {
			w := w
			bodies[w] = func(int) {
				for _, o := range progs[w] {
					e.Boundary()
					call := e.Clock
					out := idmExec(idm, o)
					results[w] = append(results[w], idmEvent{op: o, out: out, call: call, ret: e.Clock, w: w})
				}
			}
		}
		e = sched.New(bodies, choose)
		v, desc := e.Run()
		for _, rs := range results {
			evs = append(evs, rs...)
		}
		return e, evs, idm, v, desc
	}
	judge := func(e *sched.Exec, evs []idmEvent, idm *memidm.MemIdm, v sched.Verdict, desc string) {
		progText := func() any {
			var p []string
			for w, pr := range progs {
				var s []string
				for _, o := range pr {
					s = append(s, o.String())
				}
				p = append(p, fmt.Sprintf("w%d: %s", w, strings.Join(s, "; ")))
			}
			return p
		}
		choices := func() []int {
			var ch []int
			for _, d := range e.Trace {
				ch = append(ch, d.Chosen)
			}
			return ch
		}
		seenInter[e.InterleavingHash()] = true
		sig := fmt.Sprintf("conc|workers=%d|switches=%d", nw, min3(e.Switches, 6))
		c.Rep.Case(sig, e.Switches > 0)
		c.Rep.Count("schedules", 1)
		if v != sched.Completed {
			c.Disagree("conc|deadlock", "MemIdm: concurrent calls deadlock: "+desc, map[string]any{"programs": progText(), "schedule": choices()})
			return
		}
		if bad := idm.VerifCheck(); len(bad) > 0 {
			c.Disagree("conc|internal-maps", fmt.Sprintf("MemIdm: after a concurrent execution the internal maps are out of step: %v", bad), map[string]any{"programs": progText(), "schedule": choices()})
			return
		}
		var ops []porcupine.Operation
		for _, ev := range evs {
			ops = append(ops, porcupine.Operation{ClientId: ev.w % 90, Input: ev.op, Output: ev.out, Call: ev.call*2 + 1, Return: ev.ret*2 + 2})
		}
		res, _ := porcupine.CheckOperationsVerbose(idmPorcupine, ops, 20*time.Second)
		switch res {
		case porcupine.Unknown:
			c.Rep.Inconclusive = append(c.Rep.Inconclusive, "porcupine timed out on a MemIdm history")
		case porcupine.Illegal:
			var hs []string
			sort.Slice(evs, func(i, j int) bool { return evs[i].call < evs[j].call })
			for _, ev := range evs {
				hs = append(hs, fmt.Sprintf("[%d,%d] w%d %s -> %s", ev.call, ev.ret, ev.w, ev.op, ev.out))
			}
			kinds := map[string]bool{}
			for _, pr := range progs {
				for _, o := range pr {
					kinds[o.K] = true
				}
			}
			var ks []string
			for k := range kinds {
				ks = append(ks, k)
			}
			sort.Strings(ks)
			c.Disagree("conc|not-linearizable|"+strings.Join(ks, "+"), "MemIdm: a concurrent history is not linearizable against the two-map model", map[string]any{"programs": progText(), "schedule": choices(), "history": hs})
		}
	}
	// systematic part: every schedule with at most 2 preemptions (capped), then random schedules
	n, _ := sched.Explore(2, c.Pick(60, 400), func(p []int) *sched.Exec {
		e, evs, idm, v, desc := runOne(sched.Prefix(p))
		judge(e, evs, idm, v, desc)
		return e
	})
	_ = n
	for k := 0; k < c.Pick(10, 60); k++ {
		e, evs, idm, v, desc := runOne(sched.Random(r.IntN, 8))
		judge(e, evs, idm, v, desc)
	}
}

func min3(a, b int) int {
	if a < b {
		return a
	}
	return b
}

func init() {
	register(&Check{
		Prop:   "C15",
		Shards: shards(8, 16),
		Meta: func(tier string) rt.Meta {
			return rt.Meta{Level: "exploration", MinEvals: 2000, MinDistinct: 10,
				Rule:        "sequential: random histories of 200 calls over 4 names (incl. root) and all 8 operations, every return value checked against a two-map reference model (a fresh id = any id never handed out), plus after every call a sweep of all by-name/by-id lookups and the internal-map invariant hook. Concurrent: 2-4 goroutines x 2-4 calls under the deterministic lock-hook scheduler (all schedules with <= 2 preemptions up to a cap, then random schedules), recorded (call, return) events judged by porcupine against the same model. Plus sequential histories of 6000 calls biased to add/delete (about 1000 successful deletions on one instance). A Windows-typed identity manager (other administrator names, user and group names differing) runs the same sequential histories in a worker of the avfs_setostype build. AdminUser()/AdminGroup() are asserted after every call (id 0, the administrator names, never nil). Signature = mode | operation | outcome class (sequential) or workers/context switches (concurrent); non-trivial = not the first call / at least one context switch.",
				Assumptions: []string{"when both the group is unknown and the user exists, either documented error is accepted"}}
		},
		CrashIsViolation: true,
		OSShards:         1,
		Run: func(c *rt.Ctx) {
			hook.Sequential()
			if os.Getenv("VERIF_PART") == "os" {
				// the Windows-typed identity manager (the one a Windows-typed MemFS gets by default): other administrator
				// names, the user's differing from the group's; the same model and monitors, sequential histories only
				if avfs.BuildFeatures()&avfs.FeatSetOSType == 0 {
					c.Rep.Inconclusive = append(c.Rep.Inconclusive, "the Windows-typed part runs in a worker built without the avfs_setostype tag")
					return
				}
				c15NewIdm = func() *memidm.MemIdm { return memidm.NewWithOptions(&memidm.Options{OSType: avfs.OsWindows}) }
				c15AdminUser, c15AdminGroup = avfs.AdminUserName(avfs.OsWindows), avfs.AdminGroupName(avfs.OsWindows)
				idmNames = []string{c15AdminUser, c15AdminGroup, "alice", "bob"}
				if t := c15NewIdm(); t.OSType() != avfs.OsWindows {
					c.Disagree("seq|windows-typed|construction", fmt.Sprintf("memidm.NewWithOptions(OSType Windows) reports %s", t.OSType()), nil)
					return
				}
				for h := 0; h < c.Pick(300, 6000); h++ {
					c15Sequential(c, h, 200, false)
				}
				for h := 0; h < c.Pick(4, 40); h++ {
					c15Sequential(c, h, 6000, true)
				}
				c.Rep.Count("windows_typed_histories", int64(c.Pick(304, 6040)))
				return
			}
			for h := 0; h < c.Pick(400, 20000); h++ {
				if h%c.NShards == c.Shard {
					c15Sequential(c, h, 200, false)
				}
			}
			for h := 0; h < c.Pick(16, 320); h++ {
				if h%c.NShards == c.Shard {
					c15Sequential(c, h, 6000, true)
				}
			}
			sched.Install()
			seen := map[uint64]bool{}
			for h := 0; h < c.Pick(160, 6000); h++ {
				if h%c.NShards == c.Shard {
					c15Concurrent(c, h, seen)
				}
			}
			c.Rep.Count("distinct_interleavings", int64(len(seen)))
		},
	})
}
