package checks

import (
	"bytes"
	"crypto/sha256"
	"crypto/sha512"
	"errors"
	"fmt"
	"hash"
	"io/fs"
	"os"
	"strings"

	"github.com/avfs/avfs"
	"github.com/avfs/avfs/vfs/basepathfs"
	"github.com/avfs/avfs/vfs/failfs"
	"github.com/avfs/avfs/vfs/memfs"
	"github.com/avfs/avfs/vfs/orefafs"
	"github.com/avfs/avfs/vfs/osfs"
	"github.com/avfs/avfs/vfs/rofs"

	"verif/internal/fsx"
	"verif/internal/hook"
	"verif/internal/rt"
)

var errInjected = errors.New("verif: injected failure")

// c16Side builds a base file system of the given kind; dir is the directory the files of the scenario live in.
func c16Side(kind, scratch string, n int) (base avfs.VFS, dir string) {
	switch kind {
	case "OsFS":
		d := fmt.Sprintf("%s/c16-%d", scratch, n)
		_ = os.RemoveAll(d)
		_ = os.MkdirAll(d, 0o755)
		return osfs.NewWithNoIdm(), d
	case "BasePathFS(MemFS)":
		m := newBase("MemFS")
		_ = m.MkdirAll("/bp", 0o755)
		return basepathfs.New(m, "/bp"), "/"
	case "MemFS/Windows", "OrefaFS/Windows":
		// Windows-typed instances (workers of the avfs_setostype build): other default modes, other path syntax
		var v avfs.VFS
		if kind == "OrefaFS/Windows" {
			v = orefafs.NewWithOptions(&orefafs.Options{OSType: avfs.OsWindows})
		} else {
			v = memfs.NewWithOptions(&memfs.Options{OSType: avfs.OsWindows})
		}
		_ = v.MkdirAll(`C:\d`, 0o755)
		return v, `C:\d`
	default:
		v := newBase(kind)
		_ = v.MkdirAll("/d", 0o755)
		return v, "/d"
	}
}

func c16Content(size int) []byte {
	b := make([]byte, size)
	for i := range b {
		b[i] = byte((i*7 + i/251 + i/65536) % 253)
	}
	return b
}

type c16Plan struct {
	failAt int // index in the global consultation sequence; -1 = never
	seq    []string
	n      int
	// nested, when set, is run once, from inside the callback, right before the first write to the destination: another
	// copy that overlaps this one (the functions share a pool of buffers)
	nested func()
}

func (p *c16Plan) fn(side string) failfs.FailFunc {
	return func(_ avfs.VFSBase, fn avfs.FnVFS, fp *failfs.FailParam) error {
		i := p.n
		p.n++
		p.seq = append(p.seq, side+":"+fn.String())
		if p.nested != nil && side == "dst" && fn == avfs.FnFileWrite {
			f := p.nested
			p.nested = nil
			f()
		}
		if i == p.failAt {
			return &fs.PathError{Op: fp.Op, Path: fp.Path, Err: errInjected}
		}
		return nil
	}
}

// listed reports whether a consultation is one of the steps the property lists as "must be reported".
func c16Listed(what string) bool {
	switch what {
	case "src:OpenFile", "src:FileRead", "src:Stat", "dst:OpenFile", "dst:FileWrite", "dst:FileSync", "dst:Chmod", "dst:FileClose":
		return true
	}
	return false
}

func c16Run(c *rt.Ctx, srcKind, dstKind, fnName string, size int, mode fs.FileMode, failAt int, caseNo int) (plan *c16Plan) {
	srcBase, srcDir := c16Side(srcKind, c.Scratch, caseNo*2)
	dstBase, dstDir := c16Side(dstKind, c.Scratch, caseNo*2+1)
	if srcKind == "OsFS" {
		defer os.RemoveAll(srcDir)
	}
	if dstKind == "OsFS" {
		defer os.RemoveAll(dstDir)
	}
	content := c16Content(size)
	srcPath := srcBase.Join(srcDir, "src.bin")
	dstPath := dstBase.Join(dstDir, "dst.bin")
	if caseNo%4 == 1 && srcDir == dstDir {
		// mirroring: the same path string on two distinct file systems of the same kind
		dstPath = srcPath
	}
	if err := srcBase.WriteFile(srcPath, content, 0o600); err != nil {
		c.Rep.Inconclusive = append(c.Rep.Inconclusive, "cannot set up source: "+err.Error())
		return nil
	}
	_ = srcBase.Chmod(srcPath, mode)
	if caseNo%3 == 0 && !strings.HasPrefix(fnName, "HashFile") {
		// the destination already exists, longer than the source and with other permission bits
		_ = dstBase.WriteFile(dstPath, append(c16Content(size), []byte("-older-and-longer")...), 0o600)
		_ = dstBase.Chmod(dstPath, []fs.FileMode{0o600, 0o640, 0o444}[caseNo%3+caseNo%2])
	}
	plan = &c16Plan{failAt: failAt}
	otherContent := bytes.Repeat([]byte{0xEE}, 3000)
	otherDst := dstBase.Join(dstDir, "other-dst.bin")
	nestedRan, nestedErr := false, error(nil)
	if failAt < 0 && caseNo%2 == 0 && !strings.HasPrefix(fnName, "HashFile") {
		otherSrc := srcBase.Join(srcDir, "other-src.bin")
		_ = srcBase.WriteFile(otherSrc, otherContent, 0o644)
		plan.nested = func() {
			nestedRan = true
			nestedErr = avfs.CopyFile(dstBase, srcBase, otherDst, otherSrc)
		}
	}
	var srcFS avfs.VFS = srcBase
	if srcKind == "RoFS(MemFS)" {
		srcFS = rofs.New(srcBase)
	}
	sw := failfs.New(srcFS)
	_ = sw.SetFailFunc(plan.fn("src"))
	dw := failfs.New(dstBase)
	_ = dw.SetFailFunc(plan.fn("dst"))
	var (
		sum    []byte
		err    error
		hasher hash.Hash
		want   []byte
	)
	var panicked any
	func() {
		defer func() { panicked = recover() }()
		fsx.BeginCall() // a direct call: the lock-site budget of the sequential hook restarts here
		switch fnName {
		case "CopyFile":
			err = avfs.CopyFile(dw, sw, dstPath, srcPath)
		case "CopyFileHash/sha256":
			hasher = sha256.New()
			sum, err = avfs.CopyFileHash(dw, sw, dstPath, srcPath, hasher)
			w := sha256.Sum256(content)
			want = w[:]
		case "CopyFileHash/sha512":
			hasher = sha512.New()
			sum, err = avfs.CopyFileHash(dw, sw, dstPath, srcPath, hasher)
			w := sha512.Sum512(content)
			want = w[:]
		case "HashFile/sha256":
			sum, err = avfs.HashFile(sw, srcPath, sha256.New())
			w := sha256.Sum256(content)
			want = w[:]
		}
	}()
	injected := ""
	if failAt >= 0 && failAt < len(plan.seq) {
		injected = plan.seq[failAt]
	}
	sig := fmt.Sprintf("%s|%s->%s|size=%d|inject=%s", fnName, srcKind, dstKind, size, injected)
	replay := map[string]any{"fn": fnName, "src": srcKind, "dst": dstKind, "size": size, "mode": fmt.Sprintf("%04o", uint32(mode)), "fail_at": failAt,
		"consultations": plan.seq, "returned_error": fmt.Sprint(err)}
	c.Rep.Case(fmt.Sprintf("%s|%s->%s|inject=%s|err=%v", fnName, srcKind, dstKind, injected, err != nil), failAt >= 0)
	if panicked != nil {
		c.Disagree(sig+"|panic", fmt.Sprintf("%s panics: %v", fnName, panicked), replay)
		return plan
	}
	if nestedRan {
		c.Rep.Count("overlapping_copies", 1)
		if got, rerr := dstBase.ReadFile(otherDst); nestedErr != nil || rerr != nil || !bytes.Equal(got, otherContent) {
			c.Disagree(sig+"|overlapping-copy-corrupted", fmt.Sprintf("%s %s->%s size %d: a second copy started while the first one was between a read and a write: the second destination holds %d bytes (errors %v / %v), want %d bytes of 0xEE",
				fnName, srcKind, dstKind, size, len(got), nestedErr, rerr, len(otherContent)), replay)
		}
	}
	if err == nil {
		// post-condition, read back through the base file systems, never through the wrappers under test
		if fnName != "HashFile/sha256" {
			got, rerr := dstBase.ReadFile(dstPath)
			if rerr != nil || !bytes.Equal(got, content) {
				c.Disagree(sig+"|nil-error-but-content-differs", fmt.Sprintf("%s %s->%s size %d, failure injected at %q: returns nil but the destination holds %d bytes (read error %v), source %d bytes",
					fnName, srcKind, dstKind, size, injected, len(got), rerr, len(content)), replay)
				return plan
			}
			fi, serr := dstBase.Stat(dstPath)
			if serr != nil || fi.Mode().Perm() != mode.Perm() {
				m := fs.FileMode(0)
				if fi != nil {
					m = fi.Mode().Perm()
				}
				c.Disagree(sig+"|nil-error-but-mode-differs", fmt.Sprintf("%s %s->%s, failure injected at %q: returns nil but the destination has mode %04o, source %04o",
					fnName, srcKind, dstKind, injected, uint32(m), uint32(mode.Perm())), replay)
				return plan
			}
		}
		if want != nil && !bytes.Equal(sum, want) {
			c.Disagree(sig+"|nil-error-but-wrong-digest", fmt.Sprintf("%s %s->%s, failure injected at %q: returns nil and digest %x, want %x", fnName, srcKind, dstKind, injected, sum, want), replay)
			return plan
		}
		if injected != "" && c16Listed(injected) {
			c.Disagree(sig+"|failure-not-reported", fmt.Sprintf("%s %s->%s size %d: the failure injected into %s is not reported (nil error)", fnName, srcKind, dstKind, size, injected), replay)
		}
	}
	return plan
}

func init() {
	register(&Check{
		Prop:   "C16",
		Shards: shards(4, 16),
		Meta: func(tier string) rt.Meta {
			return rt.Meta{Level: "fault_enumeration", MinEvals: 300, MinDistinct: 20, Exhaustive: true,
				Rule:        "for every (function, source fs, destination fs, size, mode) scenario - modes include bits a umask of 022 would clear, and in one scenario in three the destination already exists, longer and with other permission bits -: pass 1 records the sequence of FailFS consultations of an unfailed run and checks the post-condition by reading back through the base file systems; pass 2 re-runs the scenario once per index of that sequence with exactly that consultation failing (exhaustive single-fault enumeration, both sides). A nil error must imply equal bytes, equal permission bits and the right digest; a failure injected into open/read/write/sync/stat/chmod/close(dst) must yield a non-nil error. In half of the unfailed runs a second copy is started from inside the failure callback right before the first write to the destination (two copies overlapping on one goroutine): both destinations must be right. Plus files of 3 MiB (thorough 1, 3, 8 MiB, odd sizes) for every (function, source, destination) with faults at a sample of the consultations. Windows-typed MemFS/OrefaFS destinations and sources (other default modes) in a worker of the avfs_setostype build. Signature = function | fs pair | injected primitive | error-or-not; non-trivial = a fault was injected.",
				Assumptions: []string{"a failure of closing the source is not in the property's list: only the post-condition is checked for it", "OsFS legs run in a harness-built directory on tmpfs"}}
		},
		OSShards: 1,
		Run: func(c *rt.Ctx) {
			hook.Sequential()
			if c.Scratch == "" {
				c.Scratch = fmt.Sprintf("/dev/shm/verif-c16.%d.%d", os.Getpid(), c.Shard)
				_ = os.MkdirAll(c.Scratch, 0o755)
				defer os.RemoveAll(c.Scratch)
			}
			sizes := []int{0, 1, 32767, 32768, 32769, 65537}
			kinds := []string{"MemFS", "OrefaFS", "OsFS", "BasePathFS(MemFS)"}
			if os.Getenv("VERIF_PART") == "os" {
				if avfs.BuildFeatures()&avfs.FeatSetOSType == 0 {
					c.Rep.Inconclusive = append(c.Rep.Inconclusive, "the Windows-typed part runs in a worker built without the avfs_setostype tag")
					return
				}
				kinds = []string{"MemFS/Windows", "OrefaFS/Windows"}
			}
			modes := []fs.FileMode{0o600, 0o644, 0o755, 0o400, 0o666, 0o777, 0o604}
			rounds := 1
			if !c.Quick() {
				sizes = []int{0, 1, 511, 512, 32767, 32768, 32769, 65535, 65536, 65537, 100001}
				rounds = len(modes) // every scenario with every mode
			}
			fns := []string{"CopyFile", "CopyFileHash/sha256", "CopyFileHash/sha512", "HashFile/sha256"}
			caseNo := 0
			for _, fnName := range fns {
				srcKinds := append(append([]string{}, kinds...), "RoFS(MemFS)")
				if os.Getenv("VERIF_PART") == "os" {
					srcKinds = append(append([]string{}, kinds...), "MemFS")
				}
				for _, sk := range srcKinds {
					for _, dk := range kinds {
						if fnName == "HashFile/sha256" && dk != kinds[0] {
							continue
						}
						for si, size := range sizes {
							for round := 0; round < rounds; round++ {
								caseNo++
								if caseNo%c.NShards != c.Shard {
									continue
								}
								mode := modes[(si+caseNo+int(c.Seed))%len(modes)]
								p := c16Run(c, sk, dk, fnName, size, mode, -1, caseNo)
								if p == nil {
									continue
								}
								c.Rep.Count("scenarios", 1)
								c.Rep.Sample(map[string]any{"fn": fnName, "src": sk, "dst": dk, "size": size, "consultations_unfailed_run": p.seq}, 3)
								for k := 0; k < len(p.seq); k++ {
									c16Run(c, sk, dk, fnName, size, mode, k, caseNo)
									c.Rep.Count("faults_injected", 1)
								}
							}
						}
						// files of several MiB (hundreds of buffers; in-memory files grow through many reallocations): the
						// unfailed run, and faults at a sample of the consultations (the first and last ones, others spread)
						large := []int{3<<20 + 1}
						if !c.Quick() {
							large = []int{1<<20 + 1, 3<<20 + 1, 8<<20 + 12345}
						}
						for li, size := range large {
							caseNo++
							if caseNo%c.NShards != c.Shard {
								continue
							}
							mode := modes[(li+caseNo+int(c.Seed))%len(modes)]
							p := c16Run(c, sk, dk, fnName, size, mode, -1, caseNo)
							if p == nil {
								continue
							}
							c.Rep.Count("scenarios", 1)
							c.Rep.Count("large_file_scenarios", 1)
							n := len(p.seq)
							picks := map[int]bool{0: true, 1: true, 2: true, n - 1: true, n - 2: true, n - 3: true}
							for j := 1; j <= c.Pick(4, 18); j++ {
								picks[j*n/(c.Pick(4, 18)+1)] = true
							}
							for k := 0; k < n; k++ {
								if picks[k] {
									c16Run(c, sk, dk, fnName, size, mode, k, caseNo)
									c.Rep.Count("faults_injected", 1)
								}
							}
						}
					}
				}
			}
		},
	})
}
