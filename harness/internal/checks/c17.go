package checks

import (
	"errors"
	"fmt"
	"io/fs"
	"sort"
	"strings"

	"github.com/avfs/avfs"
	"github.com/avfs/avfs/idm/memidm"
	"github.com/avfs/avfs/vfs/memfs"

	"verif/internal/fsx"
	"verif/internal/gen"
	"verif/internal/hook"
	"verif/internal/rt"
)

// c17Unix renders a path of the file system in the portable (Unix) style: volume stripped, slashes.
func c17Unix(v avfs.VFS, p string) string {
	if v.OSType() != avfs.OsWindows {
		return p
	}
	return v.ToSlash(p[avfs.VolumeNameLen(v, p):])
}

// c17Lines renders the portable observables of a snapshot: names, types, contents, sizes, link counts, hard-link
// classes and symbolic link targets. Modes and owners are documented as OS-specific and left out.
func c17Lines(v avfs.VFS, s *fsx.Snapshot) []string {
	var out []string
	// a hard-link class is named after the smallest of its paths in the *portable* spelling (the native orders of
	// "/w/a/c" < "/w/aB" and "\\w\\aB" < "\\w\\a\\c" differ: '/' sorts before the letters, '\\' after the capitals)
	least := map[string]string{}
	for _, r := range s.Recs {
		if r.Type == "f" {
			if p := c17Unix(v, r.Path); least[r.Class] == "" || p < least[r.Class] {
				least[r.Class] = p
			}
		}
	}
	for _, r := range s.Recs {
		l := c17Unix(v, r.Path) + " " + r.Type
		switch r.Type {
		case "f":
			l += fmt.Sprintf(" sz%d %s n%d =%s", r.Size, r.Sum, r.Nlink, least[r.Class])
		case "l":
			l += " ->" + c17Unix(v, r.Target)
		}
		out = append(out, l)
	}
	sort.Strings(out)
	return out
}

func c17Diff(a, b []string) []string {
	ma, mb := map[string]bool{}, map[string]bool{}
	for _, l := range a {
		ma[l] = true
	}
	for _, l := range b {
		mb[l] = true
	}
	var out []string
	for _, l := range a {
		if !mb[l] {
			out = append(out, "linux-only: "+l)
		}
	}
	for _, l := range b {
		if !ma[l] {
			out = append(out, "windows-only: "+l)
		}
	}
	return out
}

// c17ErrFamily walks the error chain and names the family of the OS-specific error values found in it.
func c17ErrFamily(err error) string {
	fam := ""
	for e := err; e != nil; {
		switch e.(type) {
		case avfs.LinuxError:
			fam += "L"
		case avfs.WindowsError:
			fam += "W"
		}
		switch x := e.(type) {
		case *fs.PathError:
			e = x.Err
		default:
			e = errors.Unwrap(e)
		}
	}
	return fam
}

// c17Inner names the innermost error of a chain.
func c17Inner(err error) string {
	for {
		var next error
		switch x := err.(type) {
		case *fs.PathError:
			next = x.Err
		default:
			next = errors.Unwrap(err)
		}
		if next == nil {
			return strings.ReplaceAll(fmt.Sprint(err), " ", "-")
		}
		err = next
	}
}

// c17Construction checks what a freshly constructed file system of each type reports.
func c17Construction(c *rt.Ctx) {
	for _, fsType := range []string{"MemFS", "OrefaFS"} {
		for vi, osType := range []avfs.OSType{avfs.OsLinux, avfs.OsWindows, avfs.OsLinux, avfs.OsWindows, avfs.OsLinux, avfs.OsWindows, avfs.OsLinux, avfs.OsWindows} {
			fsx.BeginCall()
			v, _ := c05New(fsType, osType)
			tag := fsType + "/" + osType.String()
			// the type asked of the constructor is the type of the file system, whatever identity manager it is given:
			// one of the other OS type, one of the same type, the one that implements nothing
			full := vi < 2
			if !full {
				if fsType != "MemFS" {
					continue
				}
				other := avfs.OsWindows
				if osType == avfs.OsWindows {
					other = avfs.OsLinux
				}
				var idm avfs.IdentityMgr
				switch vi / 2 {
				case 1:
					idm = memidm.NewWithOptions(&memidm.Options{OSType: other})
					tag += "+idm-of-other-type"
				case 2:
					idm = memidm.NewWithOptions(&memidm.Options{OSType: osType})
					tag += "+idm-of-same-type"
				default:
					idm = avfs.NotImplementedIdm
					tag += "+not-implemented-idm"
				}
				v = memfs.NewWithOptions(&memfs.Options{OSType: osType, Idm: idm})
			}
			c.Rep.Case(tag+"|construction", true)
			bad := func(what string) {
				c.Disagree(tag+"|construction|"+firstWords(what), fmt.Sprintf("%s created with OSType %s: %s", fsType, osType, what), map[string]any{"fs": fsType, "os": osType.String()})
			}
			if v.OSType() != osType {
				bad(fmt.Sprintf("reports OSType %s", v.OSType()))
				continue
			}
			if !v.HasFeature(avfs.FeatSetOSType) {
				bad("does not report the feature FeatSetOSType although the build enables it")
			}
			wantSep, wantCwd, wantJoin := uint8('/'), "/", "/a/b"
			if osType == avfs.OsWindows {
				wantSep, wantCwd, wantJoin = '\\', `C:\`, `C:\a\b`
			}
			if v.PathSeparator() != wantSep {
				bad(fmt.Sprintf("path separator is %q", v.PathSeparator()))
			}
			if cwd, err := v.Getwd(); err != nil || cwd != wantCwd {
				bad(fmt.Sprintf("initial current directory is %q, %v (want %q)", cwd, err, wantCwd))
			}
			if j := v.Join(wantCwd, "a", "b"); j != wantJoin {
				bad(fmt.Sprintf("Join(%q,a,b) = %q", wantCwd, j))
			}
			if !v.IsAbs(wantJoin) {
				bad(fmt.Sprintf("IsAbs(%q) is false", wantJoin))
			}
			if osType == avfs.OsWindows && v.IsAbs("/a/b") {
				bad("IsAbs(\"/a/b\") is true on a Windows-typed file system")
			}
			if !full {
				continue
			}
			// the Linux-typed sibling creates its TempDir() among the system directories (C01 compares it with the kernel's
			// /tmp): Stat(TempDir()) is a portable call the Windows-typed one has to agree on
			if td := v.TempDir(); !v.IsAbs(td) {
				bad(fmt.Sprintf("TempDir() = %q is not absolute for the emulated OS", td))
			} else if fi, err := v.Stat(td); err != nil || !fi.IsDir() {
				bad(fmt.Sprintf("TempDir() = %q does not exist: %v", td, err))
			}
			if _, err := v.Stat(v.Join(wantCwd, "no", "such")); err == nil {
				bad("Stat of a missing path succeeds")
			} else {
				fam := c17ErrFamily(err)
				if osType == avfs.OsWindows && fam != "W" || osType == avfs.OsLinux && fam != "L" {
					bad(fmt.Sprintf("Stat of a missing path returns %v (%T chain family %q)", err, err, fam))
				}
				if !errors.Is(err, fs.ErrNotExist) {
					bad(fmt.Sprintf("Stat of a missing path returns %v, which is not fs.ErrNotExist", err))
				}
			}
			vm, isVM := v.(avfs.VolumeManager)
			if fsType == "MemFS" {
				if !isVM {
					bad("does not implement avfs.VolumeManager")
					continue
				}
				l := vm.VolumeList()
				if osType == avfs.OsWindows {
					if len(l) != 1 || l[0] != "C:" {
						bad(fmt.Sprintf("initial VolumeList() = %q, want [C:]", l))
					}
				} else {
					if len(l) != 0 {
						bad(fmt.Sprintf("VolumeList() = %q on a Linux-typed file system", l))
					}
					if err := vm.VolumeAdd("D:"); !errors.Is(err, avfs.ErrVolumeWindows) {
						bad(fmt.Sprintf("VolumeAdd on a Linux-typed file system returns %v, want ErrVolumeWindows", err))
					}
					if err := vm.VolumeDelete("D:"); !errors.Is(err, avfs.ErrVolumeWindows) {
						bad(fmt.Sprintf("VolumeDelete on a Linux-typed file system returns %v, want ErrVolumeWindows", err))
					}
				}
			}
		}
	}
}

// c17Pair runs one history on a Linux-typed and a Windows-typed sibling.
func c17Pair(c *rt.Ctx, fsType string, h int) {
	r := c.Rand(fmt.Sprintf("c17-%d", h))
	lv, _ := c05New(fsType, avfs.OsLinux)
	wv, _ := c05New(fsType, avfs.OsWindows)
	if lv.OSType() != avfs.OsLinux || wv.OSType() != avfs.OsWindows {
		return // reported by c17Construction
	}
	cfg := gen.Cfg{Root: "/w", Names: []string{"a", "ab", "c"}, Depth: 3, NoChange: true, Links: true, Chdir: true, Handles: true}
	if h%3 == 0 {
		// names that differ by letter case only: the emulated tree is case-sensitive whatever the OS type
		cfg.Names = []string{"a", "A", "aB", "c"}
	}
	if fsType == "MemFS" {
		cfg.Symlinks = true
	}
	g := gen.New(cfg, r)
	le, we := fsx.NewEnv(lv), fsx.NewEnv(wv)
	defer le.CloseAll()
	defer we.CloseAll()
	var hist []string
	replay := func() any { return map[string]any{"fs": fsType, "history": hist} }
	mk := fsx.Op{K: "Mkdir", P: "/w", Perm: 0o755}
	le.Exec(mk)
	we.Exec(c05Conv(wv, mk))
	wroot := avfs.FromUnixPath(wv, "/w")
	// one history in four starts with relative paths that cross a link to an absolute path and then climb back to the
	// root of the volume (the part of EvalSymlinks where a Windows volume name has to be carried along)
	var queue []fsx.Op
	if fsType == "MemFS" && h%4 == 0 {
		queue = []fsx.Op{{K: "Mkdir", P: "/w/t", Perm: 0o755}, {K: "WriteFile", P: "/w/t/f", Data: "tf", Perm: 0o644}, {K: "WriteFile", P: "/w/g", Data: "g", Perm: 0o644},
			{K: "Symlink", P: "/w/t", Q: "/w/abs"}, {K: "Symlink", P: "t/f", Q: "/w/rel"}, {K: "Symlink", P: "/", Q: "/w/top"}, {K: "Symlink", P: "w/g", Q: "/toprel"},
			{K: "Chdir", P: "/w"}, {K: "EvalSymlinks", P: "abs/f"}, {K: "EvalSymlinks", P: "abs/../g"}, {K: "EvalSymlinks", P: "abs/../../w/t/f"},
			{K: "EvalSymlinks", P: "rel"}, {K: "EvalSymlinks", P: "top/w/g"}, {K: "EvalSymlinks", P: "top/toprel"}, {K: "ReadFile", P: "top/toprel"}, {K: "Chdir", P: "/"}}
	}
	// another one starts with directory handles - on the root of the volume, on /w, on a deeper directory - whose Chdir
	// method sets the current directory, followed by calls on relative paths (the absolute name a handle remembers
	// has a volume on Windows)
	if h%4 == 1 {
		queue = []fsx.Op{{K: "Mkdir", P: "/w/t", Perm: 0o755}, {K: "WriteFile", P: "/w/t/f", Data: "tf", Perm: 0o644},
			{K: "OpenFile", P: "/", Flag: 0, H: 0}, {K: "OpenFile", P: "/w", Flag: 0, H: 1}, {K: "OpenFile", P: "/w/t", Flag: 0, H: 2},
			{K: "F.Chdir", H: 2}, {K: "ReadFile", P: "f"}, {K: "F.Chdir", H: 0}, {K: "Getwd"}, {K: "ReadFile", P: "w/t/f"}, {K: "Mkdir", P: "w/made", Perm: 0o755}, {K: "Stat", P: "/w/made"},
			{K: "WriteFile", P: "w/made/g", Data: "g", Perm: 0o644}, {K: "F.Chdir", H: 1}, {K: "ReadFile", P: "made/g"}, {K: "Rename", P: "made/g", Q: "t/g"}, {K: "F.Chdir", H: 0}, {K: "ReadFile", P: "w/t/g"}}
	}
	n := c.Pick(60, 120)
	for i := 0; i < n; i++ {
		fsx.BeginCall()
		if _, le := lv.Lstat("/w"); le != nil {
			if _, we := wv.Lstat(wroot); we != nil {
				// a RemoveAll of /w or of the root took the compared subtree away on both sides: it is created again
				_ = lv.MkdirAll("/w", 0o755)
				_ = wv.MkdirAll(wroot, 0o755)
				c.Rep.Count("subtree_recreated_after_removeall", 1)
			}
		}
		ls := fsx.Snap(lv, "/w", fsx.SnapOpts{})
		ws := fsx.Snap(wv, wroot, fsx.SnapOpts{})
		ll, wl := c17Lines(lv, ls), c17Lines(wv, ws)
		if d := c17Diff(ll, wl); len(d) > 0 || len(ls.Problems)+len(ws.Problems) > 0 {
			last := "the initial Mkdir"
			kind := "Mkdir"
			if len(hist) > 0 {
				last = hist[len(hist)-1]
				kind = strings.SplitN(last, "(", 2)[0]
			}
			c.Disagree(fmt.Sprintf("%s|%s|trees-differ", fsType, kind), fmt.Sprintf("%s: after %s the Linux-typed and the Windows-typed trees are not isomorphic: %v %v %v", fsType, last, d[:min3(6, len(d))], ls.Problems, ws.Problems), replay())
			return
		}
		lcwd, _ := lv.Getwd()
		wcwd, _ := wv.Getwd()
		if _, err := lv.Stat(lcwd); err != nil {
			// the current directory (or an ancestor) was removed or renamed: what relative paths - and "." itself, which
			// EvalSymlinks only looks up on Windows - mean from here on is outside the property. Both go back to the root.
			_ = lv.Chdir("/")
			_ = wv.Chdir(avfs.FromUnixPath(wv, "/"))
			c.Rep.Count("cwd_resyncs_after_removal", 1)
			lcwd, _ = lv.Getwd()
			wcwd, _ = wv.Getwd()
		}
		if c17Unix(wv, wcwd) != lcwd {
			c.Disagree(fmt.Sprintf("%s|Getwd|cwd-differs", fsType), fmt.Sprintf("%s: after %v the current directories are %q and %q", fsType, hist[max(0, len(hist)-3):], lcwd, wcwd), replay())
			return
		}
		g.Observe(ls.Recs, lcwd)
		o := g.Next()
		if len(queue) > 0 {
			o, queue = queue[0], queue[1:]
		}
		if o.K == "RemoveAll" && r.IntN(6) == 0 {
			o.P = []string{"/", "/w", "/w/.."}[r.IntN(3)] // the whole volume / the whole compared subtree
		}
		if o.K == "Chown" || o.K == "Lchown" || o.K == "F.Chown" {
			continue
		}
		if ap, err := lv.Abs(o.P); (o.K == "Remove" || o.K == "Rename") && (err != nil || ap == "/w" || ap == "/") {
			continue // the compared subtree itself stays (RemoveAll of it, or of the root, is allowed: see below)
		}
		if o.K == "Chtimes" && o.N == -1 {
			// both times omitted: Linux returns at once without looking the file up, Windows opens it first. Each sibling
			// follows its OS.
			c.Rep.Count("chtimes_zero_times_os_specific", 1)
			continue
		}
		if o.K == "Rename" && lv.Clean(o.P) == lv.Clean(o.Q) {
			// os.Rename of a directory onto its own spelling fails on Unix (Go's own pre-check) and succeeds on Windows:
			// each emulation follows its OS, the siblings cannot agree.
			continue
		}
		wo := c05Conv(wv, o)
		lr := le.Exec(o)
		wr := we.Exec(wo)
		hist = append(hist, fmt.Sprintf("%s -> linux:%s windows:%s", o, lr.Err, wr.Err))
		if fatalRes(lr) || fatalRes(wr) {
			c.Rep.Count("histories_ended_by_panic_or_deadlock", 1) // C07's business
			if len(c.Rep.Notes) < 6 {
				c.Rep.Notes = append(c.Rep.Notes, fmt.Sprintf("%s: %s -> %s / %s (%s %s)", fsType, o, lr.Err, wr.Err, lr.Raw, wr.Raw))
			}
			return
		}
		lok, wok := lr.Err == "ok" || strings.HasPrefix(lr.Err, "eof"), wr.Err == "ok" || strings.HasPrefix(wr.Err, "eof")
		c.Rep.Case(fmt.Sprintf("%s|%s|%v", fsType, fsx.OpClass(lv, o), lok), i > 0)
		// error families
		if f := c17ErrFamily(lr.E); strings.Contains(f, "W") {
			c.Disagree(fmt.Sprintf("%s|%s|linux-typed-returns-windows-error:%s", fsType, o.K, c17Inner(lr.E)), fmt.Sprintf("%s: Linux-typed %s returns the Windows error value %v", fsType, o, lr.E), replay())
			return
		}
		if f := c17ErrFamily(wr.E); strings.Contains(f, "L") && !c.Disagree(fmt.Sprintf("%s|%s|windows-typed-returns-linux-error:%s", fsType, o.K, c17Inner(wr.E)), fmt.Sprintf("%s: Windows-typed %s returns the Linux error value %v", fsType, wo, wr.E), replay()) {
			return
		}
		if o.K == "RemoveAll" && lr.Err == "errno:20" && wok {
			// Windows has no ENOTDIR: a path through a regular file is ERROR_PATH_NOT_FOUND, a "does not exist" error that
			// RemoveAll ignores by contract, on the emulation as on the real system. Each sibling follows its OS.
			c.Rep.Count("removeall_through_a_file_os_specific", 1)
			continue
		}
		if lok != wok {
			c.Disagree(fmt.Sprintf("%s|%s|linux:%s|windows:%s", fsType, o.K, lr.Err, wr.Err), fmt.Sprintf("%s: %s: the Linux-typed file system answers %s, the Windows-typed one (%s) answers %s (%s) after %v", fsType, o, lr.Err, wo, wr.Err, wr.Raw, hist[max(0, len(hist)-8):len(hist)-1]), replay())
			return
		}
		if lok && o.K == "EvalSymlinks" && c17Unix(wv, wv.FromSlash(wr.Val)) != lr.Val && c17Unix(wv, wr.Val) != lr.Val {
			c.Disagree(fmt.Sprintf("%s|EvalSymlinks|values-differ", fsType), fmt.Sprintf("%s: %s returns %q on the Linux-typed and %q on the Windows-typed file system", fsType, o, lr.Val, wr.Val), replay())
			return
		}
		// returned data of successful reads is part of "contents"
		if lok && (o.K == "ReadFile" || o.K == "F.Read" || o.K == "F.ReadAt" || o.K == "F.Seek" || o.K == "F.Write" || o.K == "F.WriteAt" || o.K == "F.WriteString") && lr.Val != wr.Val {
			c.Disagree(fmt.Sprintf("%s|%s|values-differ", fsType, o.K), fmt.Sprintf("%s: %s returns %q on the Linux-typed and %q on the Windows-typed file system", fsType, o, lr.Val, wr.Val), replay())
			return
		}
	}
	c.Rep.Count("complete_histories", 1)
	c.Rep.Sample(map[string]any{"fs": fsType, "last_calls": hist[max(0, len(hist)-5):]}, 4)
}

// c17Volumes drives volume-management sequences of a Windows-typed MemFS against a set model.
func c17Volumes(c *rt.Ctx, h int) {
	r := c.Rand(fmt.Sprintf("c17-vol-%d", h))
	v := memfs.NewWithOptions(&memfs.Options{OSType: avfs.OsWindows})
	if v.OSType() != avfs.OsWindows {
		return
	}
	model := map[string]map[string]bool{"C:": {}} // volume -> files created by the sequence
	names := []string{"D:", "E:", "Z:", `D:\`, `E:\x\y`, "", "DD", `\x`, "x", `\\host\share`, `\\host\share\x`}
	var hist []string
	replay := func() any { return map[string]any{"history": hist} }
	n := c.Pick(30, 60)
	for i := 0; i < n; i++ {
		fsx.BeginCall()
		arg := names[r.IntN(len(names))]
		vol := avfs.VolumeName(v, arg)
		k := r.IntN(10)
		var what string
		switch {
		case k < 3:
			err := v.VolumeAdd(arg)
			what = fmt.Sprintf("VolumeAdd(%q) -> %v", arg, err)
			hist = append(hist, what)
			want := "ok"
			switch {
			case vol == "":
				want = "invalid"
			case model[vol] != nil:
				want = "exists"
			}
			got := "other"
			switch {
			case err == nil:
				got = "ok"
			case errors.Is(err, avfs.ErrVolumeNameInvalid):
				got = "invalid"
			case errors.Is(err, avfs.ErrVolumeAlreadyExists):
				got = "exists"
			}
			c.Rep.Case("volumes|VolumeAdd|"+want, true)
			if got != want {
				c.Disagree("volumes|VolumeAdd|"+c17VolKind(arg)+"|want:"+want+"|got:"+got, fmt.Sprintf("Windows-typed MemFS: %s, the model of the volumes %v says %s", what, c17Keys(model), want), replay())
				return
			}
			if want == "ok" {
				model[vol] = map[string]bool{}
			}
		case k < 5:
			err := v.VolumeDelete(arg)
			what = fmt.Sprintf("VolumeDelete(%q) -> %v", arg, err)
			hist = append(hist, what)
			want := "ok"
			switch {
			case vol == "":
				want = "invalid"
			case model[vol] == nil:
				want = "invalid"
			}
			got := "other"
			switch {
			case err == nil:
				got = "ok"
			case errors.Is(err, avfs.ErrVolumeNameInvalid):
				got = "invalid"
			}
			c.Rep.Case("volumes|VolumeDelete|"+want, true)
			if got != want {
				c.Disagree("volumes|VolumeDelete|"+c17VolKind(arg)+"|want:"+want+"|got:"+got, fmt.Sprintf("Windows-typed MemFS: %s, the model of the volumes %v says %s", what, c17Keys(model), want), replay())
				return
			}
			if want == "ok" {
				delete(model, vol)
			}
		case k < 8:
			// create a file on a volume of the model (or on a missing one)
			if vol == "" || strings.HasPrefix(vol, `\\`) && r.IntN(2) == 0 {
				continue
			}
			name := []string{"f", "g"}[r.IntN(2)]
			p := vol + `\` + name
			err := v.WriteFile(p, []byte(vol+name), 0o644)
			what = fmt.Sprintf("WriteFile(%q) -> %v", p, err)
			hist = append(hist, what)
			c.Rep.Case(fmt.Sprintf("volumes|WriteFile|%v", model[vol] != nil), true)
			if (err == nil) != (model[vol] != nil) {
				c.Disagree(fmt.Sprintf("volumes|WriteFile|volume-exists:%v|err:%v", model[vol] != nil, err != nil), fmt.Sprintf("Windows-typed MemFS: %s while the volumes are %v", what, c17Keys(model)), replay())
				return
			}
			if err == nil {
				model[vol][name] = true
			}
		default:
			what = "observe"
		}
		// observation after every step: the list and the content of every volume
		fsx.BeginCall()
		got := append([]string(nil), v.VolumeList()...)
		sort.Strings(got)
		if want := c17Keys(model); strings.Join(got, "|") != strings.Join(want, "|") {
			c.Disagree("volumes|VolumeList|differs-from-model", fmt.Sprintf("Windows-typed MemFS: after %s VolumeList() = %q, the model says %q", what, got, want), replay())
			return
		}
		for vol, files := range model {
			for _, name := range []string{"f", "g"} {
				b, err := v.ReadFile(vol + `\` + name)
				if files[name] != (err == nil) || err == nil && string(b) != vol+name {
					c.Disagree("volumes|ReadFile|content-differs-from-model", fmt.Sprintf("Windows-typed MemFS: after %v ReadFile(%q) = %q, %v; the model says present=%v", hist[max(0, len(hist)-4):], vol+`\`+name, b, err, files[name]), replay())
					return
				}
			}
		}
		for _, vol := range []string{"D:", "E:", "Z:"} {
			if model[vol] == nil {
				if _, err := v.Stat(vol + `\`); err == nil {
					c.Disagree("volumes|Stat|root-of-missing-volume-exists", fmt.Sprintf("Windows-typed MemFS: after %v Stat(%q) succeeds although the volume does not exist", hist[max(0, len(hist)-4):], vol+`\`), replay())
					return
				}
			}
		}
	}
	c.Rep.Count("complete_volume_sequences", 1)
	c.Rep.Sample(map[string]any{"volumes": hist[max(0, len(hist)-5):]}, 2)
}

func c17VolKind(arg string) string {
	switch {
	case strings.HasPrefix(arg, `\\`):
		return "unc"
	case len(arg) >= 2 && arg[1] == ':':
		return "drive"
	}
	return "novolume"
}

func c17Keys(m map[string]map[string]bool) []string {
	var out []string
	for k := range m {
		out = append(out, k)
	}
	sort.Strings(out)
	return out
}

func init() {
	register(&Check{
		Prop:   "C17",
		Shards: shards(12, 16),
		Meta: func(tier string) rt.Meta {
			return rt.Meta{Level: "exploration", MinEvals: 5000, MinDistinct: 60,
				Rule:        "built with -tags avfs_setostype. (a) construction: MemFS and OrefaFS created with OSType Linux / Windows report that type, the feature, the separator, the initial directory, Join/IsAbs of the type, an existing TempDir, an error of the right family (avfs.LinuxError / avfs.WindowsError) that still is fs.ErrNotExist, and the volume list. Also MemFS constructed with an explicit identity manager of the other type, of the same type, and the one that implements nothing. (b) sibling lockstep: one generated history of 60-120 calls (C01 templates on portable paths under /w: create, write through handles, mkdir, remove, rename, link, symlink, truncate, chmod, chdir, reads) is run by the administrator on a Linux-typed and on a Windows-typed instance, the Windows operands converted with FromUnixPath/FromSlash; after every call: both succeed or both fail, no Windows-typed call returns an avfs.LinuxError and no Linux-typed call an avfs.WindowsError anywhere in its error chain, returned data agree, current directories agree, and the trees under /w are isomorphic after ToSlash + volume stripping (names, types, sizes, contents, link counts, hard-link classes, link targets). (c) volumes: random VolumeAdd/VolumeDelete/WriteFile sequences over 11 spellings on a Windows-typed MemFS against a set model (documented error values, VolumeList == model, files of one volume invisible on the others, a deleted volume is gone with its files). Chdir through directory handles (volume root, /w, deeper) is compared, one history in four starting with them. One history in three uses names that differ by letter case only. Signature = fs | call class | outcome.",
				Assumptions: []string{"Chown/Lchown are not issued and modes/owners are not compared (documented as OS-specific)", "temp-file helpers are left out: their names are random per instance", "case-insensitivity of Windows names is not judged (no two spellings differing only by case are generated)"}}
		},
		Run: func(c *rt.Ctx) {
			hook.Sequential()
			if avfs.BuildFeatures()&avfs.FeatSetOSType == 0 {
				c.Rep.Inconclusive = append(c.Rep.Inconclusive, "harness built without the avfs_setostype tag")
				return
			}
			if c.Shard == 0 {
				c17Construction(c)
			}
			n := c.Pick(12000, 300000)
			for h := 0; h < n; h++ {
				if h%c.NShards != c.Shard {
					continue
				}
				c17Pair(c, []string{"MemFS", "OrefaFS"}[h%2], h)
			}
			nv := c.Pick(3000, 60000)
			for h := 0; h < nv; h++ {
				if h%c.NShards != c.Shard {
					continue
				}
				c17Volumes(c, h)
			}
		},
	})
}
