// Package checks holds one file per property; each registers a Check.
package checks

import (
	"verif/internal/rt"
)

// Check describes how a property is decided.
type Check struct {
	Prop   string
	Meta   func(tier string) rt.Meta
	Shards func(tier string) int // number of worker processes
	Chroot bool                  // workers run chrooted into a tmpfs scratch directory (kernel oracle)
	Run    func(c *rt.Ctx)       // worker body: fills c.Rep
	// Timeout per worker in seconds (watchdog; firing is inconclusive unless a check says otherwise).
	Timeout func(tier string) int
	// CrashIsViolation: a Go fatal error / unrecovered panic in avfs frames inside a worker refutes the property.
	CrashIsViolation bool
	// Env returns extra environment variables for the worker of a shard (e.g. GORACE).
	Env func(shard int) []string
	// OSShards is the number of additional workers run from the binary built with -tags avfs_setostype
	// (VERIF_PART=os in their environment): the part of a check about Windows-typed instances.
	OSShards int
	// Pre runs in the driver before the workers start.
	Pre func(tier string)
	// Post runs in the driver after all workers ended (e.g. to collect race-detector logs).
	Post func(tier string, total *rt.Report)
}

// All is the registry.
var All = map[string]*Check{}

func register(c *Check) { All[c.Prop] = c }

func shards(q, t int) func(string) int {
	return func(tier string) int {
		if tier == "thorough" {
			return t
		}
		return q
	}
}
