package fsx

import (
	"io/fs"
	"strings"

	"github.com/avfs/avfs"
)

// PathClass classifies a path operand in the current state of v (DESIGN.md Appendix C).
// cwd is the working directory used to resolve relative paths.
func PathClass(v avfs.VFS, p string) string {
	if p == "" {
		return "empty"
	}
	pre := ""
	if !strings.HasPrefix(p, "/") {
		pre = "rel:"
	}
	cl := v.Clean(p)
	if cl != p {
		pre += "unclean:"
	}
	if cl == "/" {
		return pre + "root"
	}
	if cl == "." {
		return pre + "dot"
	}
	if cl == ".." || strings.HasPrefix(cl, "../") {
		pre += "dotdot:"
	}
	// does an intermediate component resolve through a symlink?
	if dir := v.Dir(cl); dir != cl {
		if viaLink(v, dir) {
			pre += "via-link:"
		}
	}
	li, err := v.Lstat(p)
	if err != nil {
		ec := ErrClass(err)
		switch ec {
		case "errno:2":
			// which ancestor is missing?
			d := v.Dir(cl)
			if di, derr := v.Stat(d); derr == nil {
				if di.IsDir() {
					return pre + "missing(parent-dir)"
				}
				return pre + "missing(parent-file)"
			}
			return pre + "missing(parent-missing)"
		case "errno:20":
			return pre + "missing(below-file)"
		case "errno:40":
			return pre + "unreachable(loop)"
		}
		return pre + "lstat-" + ec
	}
	switch {
	case li.Mode()&fs.ModeSymlink != 0:
		ti, terr := v.Stat(p)
		if terr != nil {
			if ErrClass(terr) == "errno:40" {
				return pre + "link->loop"
			}
			return pre + "link->missing"
		}
		if ti.IsDir() {
			return pre + "link->dir"
		}
		return pre + "link->file"
	case li.IsDir():
		es, rerr := v.ReadDir(p)
		if rerr == nil && len(es) == 0 {
			return pre + "dir-empty"
		}
		return pre + "dir-nonempty"
	default:
		nl := uint64(1)
		func() {
			defer func() { _ = recover() }()
			nl = v.ToSysStat(li).Nlink()
		}()
		if nl > 1 {
			return pre + "file-multilinked"
		}
		return pre + "file"
	}
}

func viaLink(v avfs.VFS, dir string) bool {
	for d := dir; d != "/" && d != "." && d != ""; d = v.Dir(d) {
		if li, err := v.Lstat(d); err == nil && li.Mode()&fs.ModeSymlink != 0 {
			return true
		}
		if v.Dir(d) == d {
			break
		}
	}
	return false
}

// PairClass classifies the relation of two path operands.
func PairClass(v avfs.VFS, p, q string) string {
	ap, _ := v.Abs(p)
	aq, _ := v.Abs(q)
	switch {
	case ap == aq:
		return "same"
	case strings.HasPrefix(aq, strings.TrimSuffix(ap, "/")+"/"):
		return "p-ancestor-of-q"
	case strings.HasPrefix(ap, strings.TrimSuffix(aq, "/")+"/"):
		return "q-ancestor-of-p"
	}
	pi, perr := v.Lstat(p)
	qi, qerr := v.Lstat(q)
	if perr == nil && qerr == nil && pi.Mode().IsRegular() && qi.Mode().IsRegular() && v.SameFile(pi, qi) {
		return "samefile"
	}
	if v.Dir(ap) == v.Dir(aq) {
		return "same-parent"
	}
	return "unrelated"
}

// OpClass is the call-shape part of a signature: kind, flag set and the classes of its operands in the current state.
func OpClass(v avfs.VFS, o Op) string {
	s := o.K
	switch o.K {
	case "OpenFile", "OpenWriteClose":
		s += "[" + FlagString(o.Flag) + "]"
	case "Truncate":
		switch {
		case o.N < 0:
			s += "[neg]"
		case o.N == 0:
			s += "[0]"
		default:
			s += "[pos]"
		}
	case "Chown", "Lchown":
		s += "["
		if o.N < 0 {
			s += "uid-1"
		} else {
			s += "uid"
		}
		if o.M < 0 {
			s += ",gid-1"
		} else {
			s += ",gid"
		}
		s += "]"
	case "CreateTemp", "MkdirTemp":
		s += "[pat:" + o.Q + "]"
		if o.P == "" {
			return s + " dir=default"
		}
		return s + " dir=" + PathClass(v, o.P)
	case "Symlink":
		return s + " new=" + PathClass(v, o.Q)
	}
	if pathOps[o.K] || o.K == "OpenWriteClose" {
		s += " p=" + PathClass(v, o.P)
	}
	if o.K == "Rename" || o.K == "Link" {
		s += " q=" + PathClass(v, o.Q) + " rel=" + PairClass(v, o.P, o.Q)
	}
	return s
}
