// Package fsx holds the concrete, serialisable calls of the harness and their executor over any avfs.VFS.
// The same executor drives the emulated file systems, the wrappers and (through osfs.OsFS) the kernel, so a
// differential monitor compares two Res values produced by identical code.
package fsx

import (
	"crypto/sha256"
	"errors"
	"fmt"
	"io"
	"io/fs"
	"path/filepath"
	"sort"
	"strings"
	"sync/atomic"
	"syscall"
	"time"

	"github.com/avfs/avfs"
)

// Op is one concrete call. Unused fields are zero.
type Op struct {
	K    string `json:"k"`           // call kind, e.g. "Mkdir", "F.Write"
	P    string `json:"p,omitempty"` // first path operand
	Q    string `json:"q,omitempty"` // second path operand / pattern
	Flag int    `json:"flag,omitempty"`
	Perm uint32 `json:"perm,omitempty"`
	N    int64  `json:"n,omitempty"` // size / offset / count / uid
	M    int64  `json:"m,omitempty"` // whence / gid / second integer
	Data string `json:"data,omitempty"`
	H    int    `json:"h,omitempty"` // handle slot (File-level ops and the slot an OpenFile stores into)
}

func (o Op) String() string {
	s := o.K + "("
	var a []string
	if o.K[0] == 'F' && strings.HasPrefix(o.K, "F.") {
		a = append(a, fmt.Sprintf("h%d", o.H))
	}
	if o.P != "" || pathOps[o.K] {
		a = append(a, fmt.Sprintf("%q", o.P))
	}
	if o.Q != "" || twoPathOps[o.K] {
		a = append(a, fmt.Sprintf("%q", o.Q))
	}
	if o.Flag != 0 || o.K == "OpenFile" {
		a = append(a, FlagString(o.Flag))
	}
	if o.Perm != 0 {
		a = append(a, fmt.Sprintf("0%o", o.Perm))
	}
	if o.N != 0 || intOps[o.K] {
		a = append(a, fmt.Sprintf("%d", o.N))
	}
	if o.M != 0 {
		a = append(a, fmt.Sprintf("%d", o.M))
	}
	if o.Data != "" {
		if len(o.Data) > 64 {
			// large buffers are a short unit repeated: the head and the length identify them
			a = append(a, fmt.Sprintf("data=%q...(%d bytes)", o.Data[:24], len(o.Data)))
		} else {
			a = append(a, fmt.Sprintf("data=%q", o.Data))
		}
	}
	if o.K == "OpenFile" || o.K == "Create" || o.K == "Open" || o.K == "CreateTemp" {
		a = append(a, fmt.Sprintf("->h%d", o.H))
	}
	return s + strings.Join(a, ",") + ")"
}

var pathOps = map[string]bool{"Mkdir": true, "MkdirAll": true, "Remove": true, "RemoveAll": true, "Rename": true, "Link": true,
	"Symlink": true, "Truncate": true, "Chmod": true, "Chown": true, "Lchown": true, "Chtimes": true, "Chdir": true, "Create": true,
	"WriteFile": true, "OpenFile": true, "Open": true, "Stat": true, "Lstat": true, "ReadDir": true, "ReadFile": true, "Readlink": true,
	"EvalSymlinks": true, "CreateTemp": true, "MkdirTemp": true, "Glob": true, "Sub": true, "Abs": true, "WalkDir": true}

var twoPathOps = map[string]bool{"Rename": true, "Link": true, "Symlink": true}

var intOps = map[string]bool{"Truncate": true, "F.Truncate": true, "F.Seek": true, "F.Read": true, "F.ReadAt": true, "F.ReadDir": true,
	"F.Readdirnames": true}

// FlagString renders open flags.
func FlagString(f int) string {
	var p []string
	switch f & 3 {
	case 0:
		p = append(p, "RDONLY")
	case 1:
		p = append(p, "WRONLY")
	case 2:
		p = append(p, "RDWR")
	default:
		p = append(p, "ACC3")
	}
	if f&syscall.O_APPEND != 0 {
		p = append(p, "APPEND")
	}
	if f&syscall.O_CREAT != 0 {
		p = append(p, "CREATE")
	}
	if f&syscall.O_EXCL != 0 {
		p = append(p, "EXCL")
	}
	if f&syscall.O_TRUNC != 0 {
		p = append(p, "TRUNC")
	}
	if f&syscall.O_SYNC != 0 {
		p = append(p, "SYNC")
	}
	return strings.Join(p, "+")
}

// Res is the normalised outcome of a call.
type Res struct {
	Err string `json:"err"`           // error class, "ok" when nil
	Val string `json:"val,omitempty"` // canonical rendering of the returned values
	Raw string `json:"raw,omitempty"` // raw error text (never compared)
	// Perm reports errors.Is(err, fs.ErrPermission); Exist / NotExist likewise. Err keeps the error value for monitors
	// that must compare identities (never serialised).
	Perm bool  `json:"perm,omitempty"`
	E    error `json:"-"`
}

func (r Res) String() string {
	if r.Val == "" {
		return r.Err
	}
	return r.Err + " " + r.Val
}

// Same reports whether two outcomes are equal on the compared domain (class and values).
func (r Res) Same(o Res) bool { return r.Err == o.Err && r.Val == o.Val }

// ErrClass maps an error of either side of a differential monitor to the shared alphabet of DESIGN.md Appendix A.
func ErrClass(err error) string {
	if err == nil {
		return "ok"
	}
	if err == io.EOF {
		return "eof"
	}
	var le avfs.LinuxError
	if errors.As(err, &le) {
		return fmt.Sprintf("errno:%d", uintptr(le))
	}
	var se syscall.Errno
	if errors.As(err, &se) {
		return fmt.Sprintf("errno:%d", uintptr(se))
	}
	var we avfs.WindowsError
	if errors.As(err, &we) {
		return fmt.Sprintf("win:%d", uintptr(we))
	}
	msg := err.Error()
	var ce avfs.CustomError
	if errors.As(err, &ce) {
		switch ce {
		case avfs.ErrNegativeOffset:
			return "negoff"
		case avfs.ErrFileClosing:
			return "closed"
		case avfs.ErrPatternHasSeparator:
			return "patsep"
		}
		return "custom:" + ce.Error()
	}
	if errors.Is(err, fs.ErrClosed) || strings.HasSuffix(msg, "use of closed file") || strings.HasSuffix(msg, "file already closed") {
		return "closed"
	}
	if errors.Is(err, fs.ErrInvalid) {
		return "invalid"
	}
	if strings.HasSuffix(msg, "negative offset") {
		return "negoff"
	}
	if strings.HasSuffix(msg, "pattern contains path separator") {
		return "patsep"
	}
	if errors.Is(err, filepath.ErrBadPattern) {
		return "badpattern"
	}
	if strings.Contains(msg, "too many links") {
		return "errno:40"
	}
	if strings.Contains(msg, "invalid use of WriteAt on file opened with O_APPEND") {
		return "appendwriteat"
	}
	if errors.Is(err, fs.ErrPermission) {
		return "perm-class:" + msg
	}
	return "other:" + msg
}

// Env is one file system under a sequence of calls together with the handles it opened.
type Env struct {
	FS    avfs.VFS
	Files map[int]avfs.File
	// TempNames maps the n-th successful CreateTemp/MkdirTemp of this Env to the name it produced.
	Temps []string
	// Yield, when set, is called between the primitive steps of composite operations.
	Now func() time.Time
}

// NewEnv wraps a file system.
func NewEnv(vfs avfs.VFS) *Env { return &Env{FS: vfs, Files: map[int]avfs.File{}} }

// DeadlockPanic is the value the sequential lock hook panics with when a lock cannot be acquired.
type DeadlockPanic struct{ What string }

// LockEvents counts lock-hook events (sequential mode); callStart is its value when the current call began.
// A call that passes more than RunawayBudget lock sites on trees of a few dozen nodes does not terminate: a logical
// verdict ("runaway"), no timer involved.
var (
	LockEvents    atomic.Int64
	callStart     atomic.Int64
	RunawayBudget int64 = 1_000_000
)

// RunawayPanic is raised by the sequential hook when the budget of the current call is exhausted.
type RunawayPanic struct{}

// BeginCall restarts the lock-site budget; monitors that call avfs directly (not through Exec) use it before each call.
func BeginCall() { callStart.Store(LockEvents.Load()) }

// CheckRunaway is called by the sequential lock hook.
func CheckRunaway() {
	n := LockEvents.Add(1)
	if n-callStart.Load() > RunawayBudget {
		callStart.Store(n)
		panic(RunawayPanic{})
	}
}

// scribble overwrites a buffer the caller owns - the slice a read call returned, the slice a write call was given -
// once the call is over: a file system that keeps or hands out its own storage instead of a copy shows the damage in
// the next snapshot or read (aliasing monitor).
func scribble(b []byte) {
	for i := range b {
		b[i] ^= 0xa5
	}
}

func modeStr(m fs.FileMode) string {
	t := "f"
	switch {
	case m.IsDir():
		t = "d"
	case m&fs.ModeSymlink != 0:
		t = "l"
	case m&fs.ModeType != 0:
		t = "?"
	}
	bits := uint32(m.Perm())
	if m&fs.ModeSetuid != 0 {
		bits |= 0o4000
	}
	if m&fs.ModeSetgid != 0 {
		bits |= 0o2000
	}
	if m&fs.ModeSticky != 0 {
		bits |= 0o1000
	}
	return fmt.Sprintf("%s%04o", t, bits)
}

// InfoStr renders the compared part of a FileInfo: type, permission bits, owner, size (files and links), nlink (files).
func InfoStr(vfs avfs.VFS, fi fs.FileInfo) string {
	if fi == nil {
		return "<nil>"
	}
	s := modeStr(fi.Mode())
	uid, gid, nl := -2, -2, uint64(0)
	func() {
		defer func() { _ = recover() }()
		st := vfs.ToSysStat(fi)
		uid, gid, nl = st.Uid(), st.Gid(), st.Nlink()
	}()
	s += fmt.Sprintf(" %d:%d", uid, gid)
	if fi.Mode().IsRegular() {
		s += fmt.Sprintf(" sz%d n%d", fi.Size(), nl)
	}
	return s
}

func dataStr(b []byte) string {
	if len(b) <= 24 {
		return fmt.Sprintf("%d:%q", len(b), string(b))
	}
	return fmt.Sprintf("%d:#%x", len(b), sha256.Sum256(b))
}

func entriesStr(es []fs.DirEntry) string {
	var p []string
	for _, e := range es {
		if strings.HasPrefix(e.Name(), NoncePrefix) {
			continue
		}
		p = append(p, e.Name()+":"+modeStr(e.Type())[:1])
	}
	return "[" + strings.Join(p, " ") + "]"
}

// SentinelTime returns the n-th sentinel modification time used by Chtimes templates.
func SentinelTime(n int64) time.Time { return time.Unix(1_000_000_000+n*86400, 0) }

// Exec runs one call and never panics: a recovered panic is an outcome of class "panic" (or "deadlock").
func (e *Env) Exec(o Op) (r Res) {
	defer func() {
		if p := recover(); p != nil {
			if d, ok := p.(DeadlockPanic); ok {
				r = Res{Err: "deadlock", Raw: d.What}
				return
			}
			if _, ok := p.(RunawayPanic); ok {
				r = Res{Err: "deadlock", Raw: "runaway: the call passed more than 1e6 lock sites without returning"}
				return
			}
			r = Res{Err: "panic", Raw: fmt.Sprint(p)}
		}
	}()
	callStart.Store(LockEvents.Load())
	return e.exec(o)
}

func res(err error, val string) Res {
	r := Res{Err: ErrClass(err), E: err}
	if err != nil {
		r.Raw = err.Error()
		r.Perm = errors.Is(err, fs.ErrPermission)
	} else {
		r.Val = val
	}
	return r
}

// resv is res for calls whose values are meaningful even when an error is returned (Read, Write, ...).
func resv(err error, val string) Res {
	r := res(err, val)
	r.Val = val
	return r
}

func (e *Env) store(h int, f avfs.File, err error) {
	if err != nil {
		return
	}
	if old, ok := e.Files[h]; ok && old != nil {
		_ = old.Close()
	}
	e.Files[h] = f
}

// madeUpUser is an avfs.UserReader that no identity manager knows.
type madeUpUser struct {
	name     string
	uid, gid int
}

func (u madeUpUser) Name() string  { return u.name }
func (u madeUpUser) Uid() int      { return u.uid }
func (u madeUpUser) Gid() int      { return u.gid }
func (u madeUpUser) IsAdmin() bool { return u.uid == 0 }

// permOf converts the twelve Unix bits of an Op into a fs.FileMode.
func permOf(bits uint32) fs.FileMode {
	perm := fs.FileMode(bits & 0o777)
	if bits&0o4000 != 0 {
		perm |= fs.ModeSetuid
	}
	if bits&0o2000 != 0 {
		perm |= fs.ModeSetgid
	}
	if bits&0o1000 != 0 {
		perm |= fs.ModeSticky
	}
	// type bits, as in Chmod(dst, srcInfo.Mode()): a mode is more than its permission bits, the call uses only those
	if bits&0o100000 != 0 {
		perm |= fs.ModeDir
	}
	if bits&0o200000 != 0 {
		perm |= fs.ModeSymlink
	}
	if bits&0o400000 != 0 {
		perm |= fs.ModeNamedPipe | fs.ModeIrregular
	}
	return perm
}

func (e *Env) exec(o Op) Res {
	v := e.FS
	perm := permOf(o.Perm)
	switch o.K {
	case "Mkdir":
		return res(v.Mkdir(o.P, perm), "")
	case "MkdirAll":
		return res(v.MkdirAll(o.P, perm), "")
	case "Remove":
		return res(v.Remove(o.P), "")
	case "RemoveAll":
		return res(v.RemoveAll(o.P), "")
	case "Rename":
		return res(v.Rename(o.P, o.Q), "")
	case "Link":
		return res(v.Link(o.P, o.Q), "")
	case "Symlink":
		return res(v.Symlink(o.P, o.Q), "")
	case "Truncate":
		return res(v.Truncate(o.P, o.N), "")
	case "Chmod":
		return res(v.Chmod(o.P, perm), "")
	case "Chown":
		return res(v.Chown(o.P, int(o.N), int(o.M)), "")
	case "Lchown":
		return res(v.Lchown(o.P, int(o.N), int(o.M)), "")
	case "Chtimes":
		t := SentinelTime(o.N)
		if o.N == -1 {
			t = time.Time{} // the zero time: "leave unchanged" for package os
		}
		if o.N == -2 {
			// only the access time is given, the modification time is omitted (still an owner-only call)
			return res(v.Chtimes(o.P, SentinelTime(7), time.Time{}), "")
		}
		if o.N == -3 {
			return res(v.Chtimes(o.P, time.Time{}, SentinelTime(9)), "")
		}
		if o.N >= 0 {
			// the access time is another sentinel than the modification time: a layer that swaps the two shows
			return res(v.Chtimes(o.P, SentinelTime(o.N+1000), t), "")
		}
		return res(v.Chtimes(o.P, t, t), "")
	case "Chdir":
		return res(v.Chdir(o.P), "")
	case "Getwd":
		d, err := v.Getwd()
		return res(err, d)
	case "Create":
		f, err := v.Create(o.P)
		e.store(o.H, f, err)
		return res(err, "")
	case "Open":
		f, err := v.Open(o.P)
		e.store(o.H, f, err)
		return res(err, "")
	case "OpenFile":
		f, err := v.OpenFile(o.P, o.Flag, perm)
		e.store(o.H, f, err)
		return res(err, "")
	case "OpenWriteClose": // OpenFile + optional small write + close, as one template
		f, err := v.OpenFile(o.P, o.Flag, perm)
		if err != nil {
			return res(err, "")
		}
		val := ""
		var werr error
		if o.Data != "" {
			var n int
			buf := []byte(o.Data)
			n, werr = f.Write(buf)
			scribble(buf)
			val = fmt.Sprintf("w=%d,%s", n, ErrClass(werr))
		}
		cerr := f.Close()
		if werr != nil {
			// the first error of the composite is its outcome
			return resv(werr, val)
		}
		return res(cerr, val)
	case "WriteFile":
		buf := []byte(o.Data)
		err := v.WriteFile(o.P, buf, perm)
		scribble(buf)
		return res(err, "")
	case "Stat":
		fi, err := v.Stat(o.P)
		if err != nil {
			return res(err, "")
		}
		return res(nil, InfoStr(v, fi))
	case "Lstat":
		fi, err := v.Lstat(o.P)
		if err != nil {
			return res(err, "")
		}
		return res(nil, InfoStr(v, fi))
	case "ReadDir":
		es, err := v.ReadDir(o.P)
		if err != nil {
			return res(err, "")
		}
		return res(nil, entriesStr(es))
	case "ReadFile":
		b, err := v.ReadFile(o.P)
		if err != nil {
			return res(err, "")
		}
		val := dataStr(b)
		scribble(b)
		return res(nil, val)
	case "Readlink":
		s, err := v.Readlink(o.P)
		if err != nil {
			return res(err, "")
		}
		return res(nil, v.Clean(s))
	case "EvalSymlinks":
		s, err := v.EvalSymlinks(o.P)
		return res(err, s)
	case "Abs":
		s, err := v.Abs(o.P)
		return res(err, s)
	case "Glob":
		m, err := v.Glob(o.P)
		if err != nil {
			return res(err, "")
		}
		if m == nil {
			return res(nil, "nil")
		}
		return res(nil, "["+strings.Join(m, " ")+"]")
	case "WalkDir":
		var visits []string
		budget := 2000
		err := v.WalkDir(o.P, func(path string, d fs.DirEntry, err error) error {
			budget--
			if budget < 0 {
				return errors.New("walk budget exceeded")
			}
			t := "-"
			if d != nil {
				t = modeStr(d.Type())[:1]
			}
			visits = append(visits, path+":"+t+":"+ErrClass(err))
			if err != nil && d != nil && d.IsDir() {
				return fs.SkipDir
			}
			return nil
		})
		return res(err, strings.Join(visits, " "))
	case "CreateTemp":
		f, err := v.CreateTemp(o.P, o.Q)
		if err != nil {
			return res(err, "")
		}
		name := f.Name()
		e.Temps = append(e.Temps, name)
		e.store(o.H, f, err)
		return res(nil, tempShape(v, o.P, o.Q, name))
	case "MkdirTemp":
		name, err := v.MkdirTemp(o.P, o.Q)
		if err != nil {
			return res(err, "")
		}
		e.Temps = append(e.Temps, name)
		return res(nil, tempShape(v, o.P, o.Q, name))
	case "SetUMask":
		return res(v.SetUMask(fs.FileMode(o.Perm)), "")
	case "UMask":
		return res(nil, fmt.Sprintf("%04o", uint32(v.UMask())))
	case "User":
		u := v.User()
		return res(nil, fmt.Sprintf("%s %d:%d", u.Name(), u.Uid(), u.Gid()))
	case "SetUserByName":
		return res(v.SetUserByName(o.P), "")
	case "SetUser":
		// an identity made up by the caller: name P, uid N, gid M (two identities may share a name)
		return res(v.SetUser(madeUpUser{name: o.P, uid: int(o.N), gid: int(o.M)}), "")
	case "Sub":
		s, err := v.Sub(o.P)
		if err != nil {
			return res(err, "")
		}
		return res(nil, s.Type())
	}
	if strings.HasPrefix(o.K, "F.") {
		return e.execFile(o)
	}
	return Res{Err: "harness:unknown-op " + o.K}
}

func tempShape(v avfs.VFS, dir, pattern, name string) string {
	if dir == "" {
		dir = v.TempDir()
	}
	prefix, suffix := pattern, ""
	if i := strings.LastIndexByte(pattern, '*'); i >= 0 {
		prefix, suffix = pattern[:i], pattern[i+1:]
	}
	d, b := filepath.Split(name)
	okDir := filepath.Clean(d) == filepath.Clean(dir)
	okShape := strings.HasPrefix(b, prefix) && strings.HasSuffix(b, suffix) && len(b) > len(prefix)+len(suffix)
	return fmt.Sprintf("dir=%v shape=%v", okDir, okShape)
}

func (e *Env) execFile(o Op) Res {
	f, ok := e.Files[o.H]
	if !ok || f == nil {
		return Res{Err: "nohandle"}
	}
	switch o.K {
	case "F.Close":
		return res(f.Close(), "")
	case "F.Read":
		b := make([]byte, o.N)
		n, err := f.Read(b)
		return resv(err, fmt.Sprintf("n=%d %s", n, dataStr(b[:max0(n, len(b))])))
	case "F.ReadAt":
		b := make([]byte, o.N)
		n, err := f.ReadAt(b, o.M)
		return resv(err, fmt.Sprintf("n=%d %s", n, dataStr(b[:max0(n, len(b))])))
	case "F.Write":
		buf := []byte(o.Data)
		n, err := f.Write(buf)
		scribble(buf)
		return resv(err, fmt.Sprintf("n=%d", n))
	case "F.WriteString":
		n, err := f.WriteString(o.Data)
		return resv(err, fmt.Sprintf("n=%d", n))
	case "F.WriteAt":
		buf := []byte(o.Data)
		n, err := f.WriteAt(buf, o.N)
		scribble(buf)
		return resv(err, fmt.Sprintf("n=%d", n))
	case "F.Seek":
		p, err := f.Seek(o.N, int(o.M))
		if err != nil {
			return res(err, "")
		}
		return res(nil, fmt.Sprintf("pos=%d", p))
	case "F.Truncate":
		return res(f.Truncate(o.N), "")
	case "F.Sync":
		return res(f.Sync(), "")
	case "F.Chmod":
		return res(f.Chmod(permOf(o.Perm)), "")
	case "F.Chown":
		return res(f.Chown(int(o.N), int(o.M)), "")
	case "F.Chdir":
		return res(f.Chdir(), "")
	case "F.Stat":
		fi, err := f.Stat()
		if err != nil {
			return res(err, "")
		}
		return res(nil, InfoStr(e.FS, fi))
	case "F.Name":
		return res(nil, f.Name())
	case "F.ReadDir":
		es, err := f.ReadDir(int(o.N))
		es = append([]fs.DirEntry(nil), es...) // the returned slice may alias the handle's cache: never sorted in place
		sort.Slice(es, func(i, j int) bool { return es[i].Name() < es[j].Name() })
		return resv(err, entriesStr(es))
	case "F.Readdirnames":
		ns, err := f.Readdirnames(int(o.N))
		ns = append([]string(nil), ns...)
		sort.Strings(ns)
		return resv(err, "["+strings.Join(ns, " ")+"]")
	}
	return Res{Err: "harness:unknown-op " + o.K}
}

func max0(n, l int) int {
	if n < 0 {
		return 0
	}
	if n > l {
		return l
	}
	return n
}

// CloseAll closes every open handle of the Env (errors ignored).
func (e *Env) CloseAll() {
	for h, f := range e.Files {
		if f != nil {
			func() {
				defer func() { _ = recover() }()
				_ = f.Close()
			}()
		}
		delete(e.Files, h)
	}
}
