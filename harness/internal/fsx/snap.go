package fsx

import (
	"crypto/sha256"
	"fmt"
	"io/fs"
	"sort"
	"strings"

	"github.com/avfs/avfs"
)

// Rec is one node of a snapshot, obtained through public methods only.
type Rec struct {
	Path   string
	Type   string // d, f, l, ?
	Mode   string // type + 4 octal digits (perm + suid/sgid/sticky)
	Uid    int
	Gid    int
	Size   int64  // files and links
	Sum    string // files: content rendering
	Target string // links: Clean(Readlink)
	Class  string // files: first path (sort order) that is SameFile with this one
	Nlink  uint64 // files
	Mtime  int64  // only when asked for
	fi     fs.FileInfo
}

// SnapOpts selects optional observables.
type SnapOpts struct {
	Mtime    bool     // include modification times
	Skip     []string // path prefixes (exact dir names) not to descend into / list
	MaxNodes int      // walk budget (default 400)
	SymSize  bool     // compare symlink sizes
	// SentMtime includes a modification time only when it is one of the executor's sentinels (SentinelTime: whole
	// seconds long before the run): what a Chtimes set, on which object - never what the clock said. For comparing twins.
	SentMtime bool
}

// Snapshot is a sorted list of records plus the problems met while walking (each is a C05 event).
type Snapshot struct {
	Recs     []Rec
	Problems []string
}

// NonceName is the name of the chroot nonce file, invisible to snapshots.
const NoncePrefix = ".verif-nonce"

// Snap walks the tree below root with ReadDir/Lstat/ReadFile/Readlink/SameFile/ToSysStat.
func Snap(v avfs.VFS, root string, o SnapOpts) (s *Snapshot) {
	BeginCall() // the walk is the monitor's own: it gets its own lock-site budget, and the next call starts from it
	s = &Snapshot{}
	defer func() {
		// under the sequential lock hook a lock left behind by an earlier call is a logical deadlock of the walk
		if x := recover(); x != nil {
			if d, ok := x.(DeadlockPanic); ok {
				s.Problems = append(s.Problems, "the walk of the tree blocks forever on a lock nobody holds any more: "+d.What)
				return
			}
			panic(x)
		}
	}()
	if o.MaxNodes == 0 {
		o.MaxNodes = 400
	}
	budget := o.MaxNodes
	skip := map[string]bool{}
	for _, p := range o.Skip {
		skip[p] = true
	}
	var walk func(p string, depth int)
	add := func(p string, fi fs.FileInfo) {
		r := Rec{Path: p, Mode: modeStr(fi.Mode()), fi: fi}
		r.Type = r.Mode[:1]
		func() {
			defer func() {
				if x := recover(); x != nil {
					s.Problems = append(s.Problems, fmt.Sprintf("ToSysStat panics at %s: %v", p, x))
				}
			}()
			st := v.ToSysStat(fi)
			r.Uid, r.Gid, r.Nlink = st.Uid(), st.Gid(), st.Nlink()
		}()
		if o.Mtime {
			r.Mtime = fi.ModTime().UnixNano()
		} else if mt := fi.ModTime(); o.SentMtime && mt.Nanosecond() == 0 && mt.Unix() > 900_000_000 && mt.Unix() < 1_500_000_000 {
			r.Mtime = mt.UnixNano()
		}
		switch r.Type {
		case "f":
			r.Size = fi.Size()
			b, err := v.ReadFile(p)
			if err != nil {
				r.Sum = "unreadable:" + ErrClass(err)
			} else {
				r.Sum = dataStr(b)
				if int64(len(b)) != fi.Size() {
					s.Problems = append(s.Problems, fmt.Sprintf("%s: Lstat size %d but ReadFile returns %d bytes", p, fi.Size(), len(b)))
				}
			}
		case "l":
			if o.SymSize {
				r.Size = fi.Size()
			}
			t, err := v.Readlink(p)
			if err != nil {
				r.Target = "unreadable:" + ErrClass(err)
			} else {
				r.Target = v.Clean(t)
			}
			r.Nlink = 0
		default:
			r.Nlink = 0
		}
		s.Recs = append(s.Recs, r)
	}
	walk = func(p string, depth int) {
		if depth > 40 {
			s.Problems = append(s.Problems, "walk exceeds depth 40 at "+p)
			return
		}
		es, err := v.ReadDir(p)
		if err != nil {
			s.Problems = append(s.Problems, fmt.Sprintf("ReadDir(%s) of a listed directory fails: %s", p, ErrClass(err)))
			return
		}
		prev := ""
		for i, e := range es {
			name := e.Name()
			if strings.HasPrefix(name, NoncePrefix) {
				continue
			}
			if i > 0 && prev != "" {
				if name == prev {
					s.Problems = append(s.Problems, fmt.Sprintf("duplicate entry %q in listing of %s", name, p))
					continue
				}
				if name < prev {
					s.Problems = append(s.Problems, fmt.Sprintf("listing of %s not sorted: %q after %q", p, name, prev))
				}
			}
			prev = name
			cp := v.Join(p, name)
			if skip[cp] {
				continue
			}
			budget--
			if budget < 0 {
				return
			}
			fi, err := v.Lstat(cp)
			if err != nil {
				s.Problems = append(s.Problems, fmt.Sprintf("%s is listed by ReadDir(%s) but Lstat fails: %s", cp, p, ErrClass(err)))
				continue
			}
			if modeStr(fi.Mode())[:1] != modeStr(e.Type())[:1] {
				s.Problems = append(s.Problems, fmt.Sprintf("%s: ReadDir type %s but Lstat type %s", cp, modeStr(e.Type())[:1], modeStr(fi.Mode())[:1]))
			}
			add(cp, fi)
			if fi.IsDir() {
				walk(cp, depth+1)
			}
		}
	}
	fi, err := v.Lstat(root)
	if err != nil {
		s.Problems = append(s.Problems, fmt.Sprintf("Lstat(%s) of the snapshot root fails: %s", root, ErrClass(err)))
		return s
	}
	add(root, fi)
	if fi.IsDir() {
		walk(root, 0)
	}
	if budget < 0 {
		s.Problems = append(s.Problems, fmt.Sprintf("walk from %s does not terminate within %d nodes", root, o.MaxNodes))
	}
	sort.SliceStable(s.Recs, func(i, j int) bool { return s.Recs[i].Path < s.Recs[j].Path })
	// hard-link classes of regular files and of symbolic links (a link can have several names too)
	for _, typ := range []string{"f", "l"} {
		var nodes []int
		for i := range s.Recs {
			if s.Recs[i].Type == typ {
				nodes = append(nodes, i)
			}
		}
		for a, i := range nodes {
			if s.Recs[i].Class != "" {
				continue
			}
			s.Recs[i].Class = s.Recs[i].Path
			for _, j := range nodes[a+1:] {
				if s.Recs[j].Class == "" && v.SameFile(s.Recs[i].fi, s.Recs[j].fi) {
					s.Recs[j].Class = s.Recs[i].Path
				}
			}
		}
	}
	// a directory has one name: two directory paths reported as the same file would be an alias
	var dirs []int
	for i := range s.Recs {
		if s.Recs[i].Type == "d" {
			dirs = append(dirs, i)
		}
	}
	for a, i := range dirs {
		for _, j := range dirs[a+1:] {
			if v.SameFile(s.Recs[i].fi, s.Recs[j].fi) {
				s.Problems = append(s.Problems, fmt.Sprintf("directories %s and %s are reported as the same file", s.Recs[i].Path, s.Recs[j].Path))
			}
		}
	}
	return s
}

func (r Rec) line(mtime bool) string {
	s := fmt.Sprintf("%s %s %d:%d", r.Path, r.Mode, r.Uid, r.Gid)
	switch r.Type {
	case "f":
		s += fmt.Sprintf(" sz%d %s n%d =%s", r.Size, r.Sum, r.Nlink, r.Class)
	case "l":
		s += fmt.Sprintf(" ->%s", r.Target)
		if r.Size != 0 {
			s += fmt.Sprintf(" sz%d", r.Size)
		}
		if r.Class != "" && r.Class != r.Path {
			s += " =" + r.Class
		}
	}
	if mtime {
		s += fmt.Sprintf(" mt%d", r.Mtime)
	}
	return s
}

// Lines renders the snapshot, one node per line.
func (s *Snapshot) Lines(mtime bool) []string {
	out := make([]string, 0, len(s.Recs))
	for _, r := range s.Recs {
		out = append(out, r.line(mtime))
	}
	return out
}

// String renders the snapshot.
func (s *Snapshot) String() string { return strings.Join(s.Lines(true), "\n") }

// Hash is a short digest of the snapshot.
func (s *Snapshot) Hash() string {
	h := sha256.Sum256([]byte(s.String()))
	return fmt.Sprintf("%x", h[:8])
}

// Diff returns the differing lines of two snapshots ("-" only in a, "+" only in b), at most max of them.
func Diff(a, b *Snapshot, mtime bool, max int) []string {
	la, lb := a.Lines(mtime), b.Lines(mtime)
	ma := map[string]bool{}
	mb := map[string]bool{}
	for _, l := range la {
		ma[l] = true
	}
	for _, l := range lb {
		mb[l] = true
	}
	var out []string
	for _, l := range la {
		if !mb[l] {
			out = append(out, "- "+l)
		}
	}
	for _, l := range lb {
		if !ma[l] {
			out = append(out, "+ "+l)
		}
	}
	sort.SliceStable(out, func(i, j int) bool { return out[i][2:] < out[j][2:] })
	if max > 0 && len(out) > max {
		out = append(out[:max], fmt.Sprintf("... %d more", len(out)-max))
	}
	return out
}

// InvariantProblems applies the C05 public-API invariants to a snapshot: Nlink of every regular file equals the
// number of paths SameFile with it, and all paths of one class agree on content, size, mode and owner.
func (s *Snapshot) InvariantProblems() []string {
	var out []string
	out = append(out, s.Problems...)
	classes := map[string][]Rec{}
	for _, r := range s.Recs {
		if r.Type == "f" {
			classes[r.Class] = append(classes[r.Class], r)
		}
	}
	for c, rs := range classes {
		for _, r := range rs {
			if r.Nlink != uint64(len(rs)) {
				out = append(out, fmt.Sprintf("%s: Nlink=%d but %d paths are SameFile with it (class %s)", r.Path, r.Nlink, len(rs), c))
			}
			if r.Sum != rs[0].Sum || r.Size != rs[0].Size || r.Mode != rs[0].Mode || r.Uid != rs[0].Uid || r.Gid != rs[0].Gid {
				out = append(out, fmt.Sprintf("%s and %s are SameFile but differ in content/size/mode/owner", r.Path, rs[0].Path))
			}
		}
	}
	sort.Strings(out)
	return out
}

// WalkList returns the visit sequence of the file system's own WalkDir (path and type), bounded.
func WalkList(v avfs.VFS, root string, max int) (visits []string, err error) {
	n := 0
	err = v.WalkDir(root, func(path string, d fs.DirEntry, werr error) error {
		n++
		if n > max {
			return fmt.Errorf("walk budget %d exceeded", max)
		}
		if strings.HasPrefix(strings.TrimPrefix(path, "/"), NoncePrefix) {
			return nil
		}
		t := "-"
		if d != nil {
			t = modeStr(d.Type())[:1]
		}
		visits = append(visits, path+":"+t+":"+ErrClass(werr))
		if werr != nil {
			if d != nil && d.IsDir() {
				return fs.SkipDir
			}
			return nil
		}
		return nil
	})
	return visits, err
}
