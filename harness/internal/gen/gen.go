// Package gen produces state-aware concrete calls from templates: operands are drawn with a bias towards paths that
// exist, towards aliasing (equal / ancestor / descendant / hard-linked operands) and towards boundary values.
package gen

import (
	"fmt"
	"math/rand/v2"
	"path/filepath"
	"strconv"
	"strings"
	"syscall"

	"verif/internal/fsx"
)

// Cfg selects the universe and the templates.
type Cfg struct {
	Root         string   // directory all generated absolute paths live under, e.g. "/w"
	Names        []string // component names
	Depth        int      // maximum depth below Root
	Symlinks     bool     // Symlink / Readlink / EvalSymlinks templates
	Links        bool     // Link templates
	Owners       bool     // Chown / Lchown templates
	Temps        bool     // CreateTemp / MkdirTemp templates
	Chdir        bool     // Chdir + relative paths
	Specials     bool     // "/", ".", ".." operands
	EmptyPath    bool     // "" as operand (not a lexically clean path: Clean("") is ".")
	Unclean      bool     // unclean spellings
	Handles      bool     // leave handles open (Create/OpenFile into slots) and use File ops
	Walk         bool
	ReadOnlyOpen bool // FileOp opens files with O_RDONLY only
	// AvoidRootOps: never use "/" as operand of Remove/RemoveAll/Rename/Link destination (sequentially unsafe on the pinned tree).
	AvoidRootOps bool
	// NoChange: one call in eight gets "no change" argument values (zero time, current size, current mode, -1/-1, empty data)
	NoChange bool
}

// G is a generator.
type G struct {
	Cfg
	R      *rand.Rand
	Exist  []fsx.Rec // last known tree (from a snapshot)
	Cwd    string
	step   int
	AllPat []string
}

// New returns a generator.
func New(c Cfg, r *rand.Rand) *G {
	g := &G{Cfg: c, R: r, Cwd: "/"}
	var rec func(p string, d int)
	rec = func(p string, d int) {
		g.AllPat = append(g.AllPat, p)
		if d == c.Depth {
			return
		}
		for _, n := range c.Names {
			rec(join(p, n), d+1)
		}
	}
	rec(c.Root, 0)
	return g
}

// Observe tells the generator what exists now.
func (g *G) Observe(recs []fsx.Rec, cwd string) {
	g.Exist = g.Exist[:0]
	for _, r := range recs {
		if r.Path == g.Root || strings.HasPrefix(r.Path, strings.TrimSuffix(g.Root, "/")+"/") {
			g.Exist = append(g.Exist, r)
		}
	}
	g.Cwd = cwd
}

func join(dir, name string) string {
	if strings.HasSuffix(dir, "/") {
		return dir + name
	}
	return dir + "/" + name
}

func (g *G) pick(ss []string) string { return ss[g.R.IntN(len(ss))] }

func (g *G) existing(pred func(fsx.Rec) bool) (string, bool) {
	var c []string
	for _, r := range g.Exist {
		if pred == nil || pred(r) {
			c = append(c, r.Path)
		}
	}
	if len(c) == 0 {
		return "", false
	}
	return g.pick(c), true
}

func isDir(r fsx.Rec) bool  { return r.Type == "d" }
func isFile(r fsx.Rec) bool { return r.Type == "f" }

// Path draws a path operand.
func (g *G) Path() string {
	x := g.R.IntN(100)
	var p string
	switch {
	case x < 50:
		if e, ok := g.existing(nil); ok {
			p = e
			break
		}
		fallthrough
	case x < 80:
		d := g.Root
		if e, ok := g.existing(isDir); ok {
			d = e
		}
		p = join(d, g.pick(g.Names))
	case x < 86:
		// below something that is not a directory, or two levels of missing
		if e, ok := g.existing(nil); ok {
			p = join(e, g.pick(g.Names))
			if g.R.IntN(2) == 0 {
				p += "/" + g.pick(g.Names)
			}
			break
		}
		fallthrough
	case x < 96 || !g.Specials:
		p = g.pick(g.AllPat)
	default:
		sp := []string{"/", g.Root, "/tmp", ".", "..", "/" + g.pick(g.Names)}
		if g.EmptyPath {
			sp = append(sp, "")
		}
		p = g.pick(sp)
	}
	return g.spell(p)
}

// spell optionally turns an absolute clean path into a relative or unclean spelling of the same path.
func (g *G) spell(p string) string {
	if p == "" || !strings.HasPrefix(p, "/") {
		if p != "" && g.Unclean && g.R.IntN(8) == 0 {
			return Unclean(g.R, p)
		}
		return p
	}
	if g.Chdir && g.R.IntN(6) == 0 {
		if rel, ok := relTo(g.Cwd, p); ok {
			p = rel
		}
	}
	if g.Unclean && g.R.IntN(8) == 0 {
		p = Unclean(g.R, p)
	}
	return p
}

func relTo(cwd, p string) (string, bool) {
	if !strings.HasPrefix(cwd, "/") {
		return "", false // not an absolute directory (e.g. a view whose Getwd is not a Unix path): keep p absolute
	}
	if cwd == "/" {
		if p == "/" {
			return ".", true
		}
		return p[1:], true
	}
	if p == cwd {
		return ".", true
	}
	if strings.HasPrefix(p, cwd+"/") {
		return p[len(cwd)+1:], true
	}
	// one level up
	i := strings.LastIndexByte(cwd, '/')
	parent := cwd[:i]
	if parent == "" {
		parent = "/"
	}
	if p == parent {
		return "..", true
	}
	if parent == "/" {
		return "../" + p[1:], true
	}
	if strings.HasPrefix(p, parent+"/") {
		return "../" + p[len(parent)+1:], true
	}
	return "", false
}

// Unclean returns a spelling of p whose Clean() is p.
func Unclean(r *rand.Rand, p string) string {
	if p == "/" {
		return []string{"//", "/.", "/..", "/./"}[r.IntN(4)]
	}
	if !strings.HasPrefix(p, "/") {
		return []string{"./" + p, p + "/", "zz/../" + p}[r.IntN(3)]
	}
	parts := strings.Split(p, "/")
	i := 1 + r.IntN(len(parts)-1)
	switch r.IntN(4) {
	case 0:
		parts[i] = "/" + parts[i] // double separator
		return strings.Join(parts, "/")
	case 1:
		parts[i] = "./" + parts[i]
		return strings.Join(parts, "/")
	case 2:
		parts[i] = "zz/../" + parts[i]
		return strings.Join(parts, "/")
	default:
		return p + "/"
	}
}

// Pair draws two path operands, biased towards aliasing.
func (g *G) Pair() (string, string) {
	p := g.Path()
	x := g.R.IntN(100)
	switch {
	case x < 8:
		return p, p
	case x < 18 && strings.HasPrefix(p, "/"):
		return p, strings.TrimSuffix(p, "/") + "/" + g.pick(g.Names) // q below p
	case x < 26 && strings.HasPrefix(p, "/"):
		if i := strings.LastIndexByte(p, '/'); i > 0 {
			return p, p[:i] // q is the parent of p
		}
	case x < 36:
		// another link of the same file
		if e, ok := g.existing(func(r fsx.Rec) bool { return r.Type == "f" && r.Nlink > 1 }); ok {
			var same []string
			for _, r := range g.Exist {
				if r.Type == "f" {
					for _, r2 := range g.Exist {
						if r2.Path == e && r2.Class == r.Class && r.Path != e {
							same = append(same, r.Path)
						}
					}
				}
			}
			if len(same) > 0 {
				return e, g.pick(same)
			}
		}
	}
	return p, g.Path()
}

var openFlagSets = func() []int {
	var out []int
	for _, acc := range []int{syscall.O_RDONLY, syscall.O_WRONLY, syscall.O_RDWR} {
		for _, ap := range []int{0, syscall.O_APPEND} {
			for _, cr := range []int{0, syscall.O_CREAT, syscall.O_CREAT | syscall.O_EXCL} {
				for _, tr := range []int{0, syscall.O_TRUNC} {
					out = append(out, acc|ap|cr|tr)
				}
			}
		}
	}
	return out
}()

// OpenFlagSets returns the 36 meaningful flag sets.
func OpenFlagSets() []int { return openFlagSets }

var dirPerms = []uint32{0o755, 0o700, 0o777, 0o750, 0, 0o1777, 0o755, 0o2755, 0o4711}
var filePerms = []uint32{0o644, 0o600, 0o666, 0o400, 0, 0o4755, 0o644, 0o2644, 0o1600, 0o6775}
var chmodPerms = []uint32{0, 0o644, 0o755, 0o777, 0o1777, 0o400, 0o1755, 0o600, 0o4755, 0o2750, 0o6711, 0o2644, 0o100755, 0o200777, 0o400644, 0o100000}
var ids = []int64{-1, 0, 1000}
var truncSizes = []int64{-1, 0, 1, 3, 7, 40}

// Data returns small content that identifies the step that wrote it.
func (g *G) Data() string {
	g.step++
	return fmt.Sprintf("<%d>", g.step)[:min(5, len(fmt.Sprintf("<%d>", g.step)))] + strings.Repeat("x", g.R.IntN(4))
}

// dataOrEmpty is Data, or one time in eight the empty string (a write of zero bytes changes nothing, wherever the offset is).
func (g *G) dataOrEmpty() string {
	if g.R.IntN(8) == 0 {
		return ""
	}
	return g.Data()
}

// Next draws the next call.
func (g *G) Next() fsx.Op {
	for {
		if o, ok := g.try(); ok {
			if g.NoChange && g.R.IntN(8) == 0 {
				o = g.noChange(o)
			}
			return o
		}
	}
}

// noChange gives a mutating call the argument values that ask for "no change" (see Degenerate), looked up in the last
// observed tree for path calls.
func (g *G) noChange(o fsx.Op) fsx.Op {
	var size int64
	var mode uint32
	p := o.P
	if p != "" && !strings.HasPrefix(p, "/") {
		p = join(g.Cwd, p)
	}
	p = filepath.Clean(p)
	for _, r := range g.Exist {
		if r.Path == p {
			size = r.Size
			if len(r.Mode) == 5 {
				if m, err := strconv.ParseUint(r.Mode[1:], 8, 32); err == nil {
					mode = uint32(m) & 0o777
				}
			}
		}
	}
	return Degenerate(g.R, o, size, mode)
}

func (g *G) safe(p string) bool {
	if !g.AvoidRootOps {
		return true
	}
	cl := filepath.Clean(p)
	return p != "" && cl != "/" && cl != "." && cl != ".." && !strings.HasPrefix(cl, "../")
}

// FileOp draws a call on one of the handle slots 0..2 (or an OpenFile that fills a slot).
func (g *G) FileOp() fsx.Op {
	h := g.R.IntN(3)
	offs := []int64{-2, -1, 0, 1, 2, 5, 9, 17, 40, 1 << 20}
	lens := []int64{0, 1, 2, 5, 16, 64}
	switch x := g.R.IntN(100); {
	case x < 14:
		fl := g.pick2(openFlagSets)
		if g.ReadOnlyOpen {
			fl = 0
		}
		return fsx.Op{K: "OpenFile", P: g.Path(), Flag: fl, Perm: filePerms[g.R.IntN(len(filePerms))], H: h}
	case x < 26:
		return fsx.Op{K: "F.Read", H: h, N: lens[g.R.IntN(len(lens))]}
	case x < 34:
		return fsx.Op{K: "F.ReadAt", H: h, N: lens[g.R.IntN(len(lens))], M: offs[g.R.IntN(len(offs)-1)]}
	case x < 46:
		return fsx.Op{K: "F.Write", H: h, Data: g.dataOrEmpty()}
	case x < 52:
		return fsx.Op{K: "F.WriteAt", H: h, Data: g.dataOrEmpty(), N: offs[g.R.IntN(len(offs)-1)]}
	case x < 56:
		return fsx.Op{K: "F.WriteString", H: h, Data: g.dataOrEmpty()}
	case x < 66:
		return fsx.Op{K: "F.Seek", H: h, N: offs[g.R.IntN(len(offs)-1)], M: int64(g.R.IntN(3))}
	case x < 72:
		return fsx.Op{K: "F.Truncate", H: h, N: offs[g.R.IntN(len(offs)-1)]}
	case x < 78:
		return fsx.Op{K: "F.Stat", H: h}
	case x < 81:
		return fsx.Op{K: "F.Sync", H: h}
	case x < 84:
		return fsx.Op{K: "F.Chmod", H: h, Perm: filePerms[g.R.IntN(len(filePerms))]}
	case x < 86:
		return fsx.Op{K: "F.Chown", H: h, N: ids[g.R.IntN(3)], M: ids[g.R.IntN(3)]}
	case x < 90:
		return fsx.Op{K: "F.ReadDir", H: h, N: int64(g.R.IntN(4) - 1)}
	case x < 93:
		return fsx.Op{K: "F.Readdirnames", H: h, N: int64(g.R.IntN(4) - 1)}
	case x < 94:
		return fsx.Op{K: "F.Chdir", H: h}
	case x < 95:
		return fsx.Op{K: "F.Name", H: h}
	default:
		return fsx.Op{K: "F.Close", H: h}
	}
}

func (g *G) try() (fsx.Op, bool) {
	if g.Handles && g.R.IntN(3) == 0 {
		return g.FileOp(), true
	}
	x := g.R.IntN(1000)
	switch {
	case x < 110:
		fl := g.pick2(openFlagSets)
		o := fsx.Op{K: "OpenWriteClose", P: g.Path(), Flag: fl, Perm: filePerms[g.R.IntN(len(filePerms))]}
		if fl&3 != 0 && g.R.IntN(4) != 0 {
			o.Data = g.Data()
		}
		return o, true
	case x < 150:
		return fsx.Op{K: "WriteFile", P: g.Path(), Data: g.Data(), Perm: filePerms[g.R.IntN(len(filePerms))]}, true
	case x < 170:
		return fsx.Op{K: "Create", P: g.Path(), H: 9}, true
	case x < 240:
		return fsx.Op{K: "Mkdir", P: g.Path(), Perm: dirPerms[g.R.IntN(len(dirPerms))]}, true
	case x < 290:
		return fsx.Op{K: "MkdirAll", P: g.Path(), Perm: dirPerms[g.R.IntN(len(dirPerms))]}, true
	case x < 350:
		p := g.Path()
		return fsx.Op{K: "Remove", P: p}, g.safe(p)
	case x < 380:
		p := g.Path()
		return fsx.Op{K: "RemoveAll", P: p}, g.safe(p)
	case x < 470:
		p, q := g.Pair()
		return fsx.Op{K: "Rename", P: p, Q: q}, g.safe(p) && g.safe(q)
	case x < 530:
		if !g.Links {
			return fsx.Op{}, false
		}
		p, q := g.Pair()
		return fsx.Op{K: "Link", P: p, Q: q}, true
	case x < 590:
		if !g.Symlinks {
			return fsx.Op{}, false
		}
		return fsx.Op{K: "Symlink", P: g.Target(), Q: g.Path()}, true
	case x < 630:
		return fsx.Op{K: "Truncate", P: g.Path(), N: truncSizes[g.R.IntN(len(truncSizes))]}, true
	case x < 670:
		return fsx.Op{K: "Chmod", P: g.Path(), Perm: chmodPerms[g.R.IntN(len(chmodPerms))]}, true
	case x < 700:
		if !g.Owners {
			return fsx.Op{}, false
		}
		k := "Chown"
		if g.R.IntN(2) == 0 {
			k = "Lchown"
		}
		return fsx.Op{K: k, P: g.Path(), N: ids[g.R.IntN(3)], M: ids[g.R.IntN(3)]}, true
	case x < 730:
		if n := g.R.IntN(12); n < 2 {
			// only one of the two times is given (-2: the access time, -3: the modification time)
			return fsx.Op{K: "Chtimes", P: g.Path(), N: int64(-2 - n)}, true
		}
		return fsx.Op{K: "Chtimes", P: g.Path(), N: int64(1 + g.R.IntN(5))}, true
	case x < 760:
		if !g.Chdir {
			return fsx.Op{}, false
		}
		return fsx.Op{K: "Chdir", P: g.Path()}, true
	case x < 790:
		if !g.Temps {
			return fsx.Op{}, false
		}
		k := "CreateTemp"
		if g.R.IntN(2) == 0 {
			k = "MkdirTemp"
		}
		dir := g.Path()
		if g.R.IntN(3) == 0 {
			dir = ""
		}
		return fsx.Op{K: k, P: dir, Q: g.pick([]string{"", "x*y", "a/b", "pre", "a*b*c", "**", "x*y*", "*"}), H: 8}, true
	case x < 830:
		return fsx.Op{K: "Stat", P: g.Path()}, true
	case x < 860:
		return fsx.Op{K: "Lstat", P: g.Path()}, true
	case x < 900:
		return fsx.Op{K: "ReadDir", P: g.Path()}, true
	case x < 930:
		return fsx.Op{K: "ReadFile", P: g.Path()}, true
	case x < 950:
		if !g.Symlinks {
			return fsx.Op{}, false
		}
		return fsx.Op{K: "Readlink", P: g.Path()}, true
	case x < 975:
		if !g.Symlinks {
			return fsx.Op{}, false
		}
		return fsx.Op{K: "EvalSymlinks", P: g.Path()}, true
	case x < 985:
		return fsx.Op{K: "Getwd"}, true
	default:
		if !g.Walk {
			return fsx.Op{}, false
		}
		if g.R.IntN(2) == 0 {
			// a pattern made from a path of the tree: its last element, or the one before, becomes a wildcard
			p := g.Path()
			d, b := p, ""
			if i := strings.LastIndexByte(p, '/'); i >= 0 {
				d, b = p[:i], p[i+1:]
			}
			switch g.R.IntN(5) {
			case 0:
				p = d + "/*"
			case 1:
				if b != "" {
					p = d + "/" + b[:1] + "*"
				}
			case 2:
				if j := strings.LastIndexByte(d, '/'); j >= 0 && b != "" {
					p = d[:j] + "/*/" + b
				}
			case 3:
				if b != "" {
					p = d + "/[" + b[:1] + "]" + b[1:]
				}
			}
			return fsx.Op{K: "Glob", P: p}, true
		}
		return fsx.Op{K: "WalkDir", P: g.Path()}, true
	}
}

func (g *G) pick2(ss []int) int { return ss[g.R.IntN(len(ss))] }

// Target draws a symlink target: sibling name, ../name, absolute path, itself-ish, missing.
func (g *G) Target() string {
	switch g.R.IntN(6) {
	case 0:
		return g.pick(g.Names)
	case 1:
		return "../" + g.pick(g.Names)
	case 2:
		return g.pick(g.Names) + "/" + g.pick(g.Names)
	case 3:
		return "."
	default:
		p := g.Path()
		if p == "" {
			return g.pick(g.Names)
		}
		return p
	}
}

func min(a, b int) int {
	if a < b {
		return a
	}
	return b
}

// Degenerate turns a mutating call into a variant whose arguments ask for "no change" or sit on a boundary - the zero
// time, the current size, the current mode, owner -1/-1, empty data: values for which a wrapper may wrongly decide that
// the call needs no checking. size and mode describe the operand in the pre-state (0 if unknown).
func Degenerate(r *rand.Rand, o fsx.Op, size int64, mode uint32) fsx.Op {
	switch o.K {
	case "Chtimes":
		o.N = -1
	case "Truncate", "F.Truncate":
		o.N = size
	case "Chmod", "F.Chmod":
		o.Perm = mode
	case "Chown", "Lchown", "F.Chown":
		o.N, o.M = -1, -1
	case "WriteFile", "F.Write", "F.WriteString", "F.WriteAt", "OpenWriteClose":
		o.Data = ""
	}
	return o
}
