// Package hook installs functions on the verif lock hooks of memfs, orefafs and memidm.
package hook

import (
	"fmt"
	"os"
	"runtime/debug"
	"sync"

	"github.com/avfs/avfs/idm/memidm"
	"github.com/avfs/avfs/vfs/memfs"
	"github.com/avfs/avfs/vfs/orefafs"

	"verif/internal/fsx"
)

// Set installs h on all three packages (nil removes it).
func Set(h func(mu *sync.RWMutex, write bool)) {
	memfs.VerifLockHook = h
	orefafs.VerifLockHook = h
	memidm.VerifLockHook = h
}

// LockEvents counts hook invocations in sequential mode.
var LockEvents int64

// Sequential installs the hook used by single-goroutine workloads: nobody else can release a lock, so an acquisition
// that cannot succeed immediately is a self-deadlock. It is reported by panicking with fsx.DeadlockPanic, which the
// executor turns into the outcome class "deadlock" - a logical verdict, no timer involved.
func Sequential() {
	Set(func(mu *sync.RWMutex, write bool) {
		LockEvents++
		fsx.CheckRunaway()
		if mu == nil {
			return // a scheduling point without a lock
		}
		if write {
			if mu.TryLock() {
				mu.Unlock()
				return
			}
		} else {
			if mu.TryRLock() {
				mu.RUnlock()
				return
			}
		}
		if os.Getenv("VERIF_DEADLOCK_STACK") != "" {
			// debugging aid: where the lock that is still held was expected to be free
			fmt.Fprintf(os.Stderr, "DEADLOCK-STACK write=%v\n%s\n", write, debug.Stack())
		}
		panic(fsx.DeadlockPanic{What: fmt.Sprintf("single goroutine blocks forever acquiring a lock it cannot get (write=%v)", write)})
	})
}
