// Package kern is the kernel-side oracle: a tmpfs scratch directory entered with chroot(2), re-initialised
// between histories to the state of a fresh emulated file system, driven through osfs.OsFS.
package kern

import (
	"crypto/rand"
	"encoding/hex"
	"errors"
	"fmt"
	"os"
	"runtime"
	"strings"
	"syscall"

	"github.com/avfs/avfs"
	"github.com/avfs/avfs/vfs/osfs"

	"verif/internal/fsx"
)

var nonceFile string

// EnterChroot chroots the whole process into dir (a fresh directory on tmpfs) after planting a nonce file, and
// verifies the result: generated, possibly destructive calls are only ever issued by a process for which this succeeded.
func EnterChroot(dir string) error {
	if !strings.HasPrefix(dir, "/dev/shm/verif.") {
		return fmt.Errorf("refusing scratch directory %q", dir)
	}
	b := make([]byte, 8)
	if _, err := rand.Read(b); err != nil {
		return err
	}
	nonceFile = fsx.NoncePrefix + "-" + hex.EncodeToString(b)
	if err := os.WriteFile(dir+"/"+nonceFile, []byte("x"), 0o600); err != nil {
		return err
	}
	if err := syscall.Chroot(dir); err != nil {
		return err
	}
	if err := os.Chdir("/"); err != nil {
		return err
	}
	if _, err := os.Lstat("/" + nonceFile); err != nil {
		return errors.New("nonce not visible after chroot")
	}
	for _, p := range []string{"/repo", "/verif", "/proc", "/usr", "/etc", "/root/.vp"} {
		if _, err := os.Lstat(p); err == nil {
			return fmt.Errorf("%s visible after chroot: not confined", p)
		}
	}
	return nil
}

// InChroot reports whether EnterChroot succeeded in this process.
func InChroot() bool { return nonceFile != "" }

// Reset wipes the chroot and recreates the initial tree of a fresh MemFS/OrefaFS:
// / 0755, /home 0700, /root 0700, /tmp 0777, all root:root; cwd "/"; process umask set to umask.
func Reset(umask uint32) error {
	if !InChroot() {
		return errors.New("kernel oracle used outside the chroot")
	}
	if _, err := os.Lstat("/" + nonceFile); err != nil {
		return errors.New("nonce vanished")
	}
	if err := os.Chdir("/"); err != nil {
		return err
	}
	es, err := os.ReadDir("/")
	if err != nil {
		return err
	}
	for _, e := range es {
		if e.Name() == nonceFile {
			continue
		}
		p := "/" + e.Name()
		if err := os.RemoveAll(p); err != nil {
			// directories without permissions are no obstacle for root; anything else is fatal for the oracle
			return fmt.Errorf("reset: %w", err)
		}
	}
	syscall.Umask(0)
	// the root directory first: what is created in it inherits its group when a history left it set-group-ID
	if err := os.Chown("/", 0, 0); err != nil {
		return err
	}
	if err := os.Chmod("/", 0o755); err != nil {
		return err
	}
	for _, d := range []struct {
		p string
		m os.FileMode
	}{{"/home", 0o700}, {"/root", 0o700}, {"/tmp", 0o777}} {
		if err := os.Mkdir(d.p, d.m); err != nil {
			return err
		}
		if err := os.Chmod(d.p, d.m); err != nil {
			return err
		}
	}
	if err := os.Chmod("/", 0o755); err != nil {
		return err
	}
	if err := os.Chown("/", 0, 0); err != nil {
		return err
	}
	_ = avfs.SetUMask(os.FileMode(umask))
	return nil
}

// osFS is osfs.OsFS with Chown/Lchown going straight to package os: OsFS built without an identity manager refuses
// them itself (EPERM) before asking the kernel, which would make the oracle say something the kernel does not.
type osFS struct{ *osfs.OsFS }

func (o osFS) Chown(name string, uid, gid int) error  { return os.Chown(name, uid, gid) }
func (o osFS) Lchown(name string, uid, gid int) error { return os.Lchown(name, uid, gid) }

// FS returns the pass-through file system of the kernel side.
func FS() avfs.VFS { return osFS{osfs.NewWithNoIdm()} }

// AsUser runs f on the calling goroutine's OS thread with the file-system identity of (uid, gid) and no supplementary
// groups, then restores root. The goroutine must be locked to its thread (LockThread) for the whole run: fsuid/fsgid are
// per-thread attributes on Linux, and dropping fsuid 0 clears the file-system capabilities of that thread only.
func AsUser(uid, gid int, f func()) error {
	if _, _, e := syscall.RawSyscall(syscall.SYS_SETGROUPS, 0, 0, 0); e != 0 {
		return fmt.Errorf("setgroups: %v", e)
	}
	syscall.RawSyscall(syscall.SYS_SETFSGID, uintptr(gid), 0, 0)
	syscall.RawSyscall(syscall.SYS_SETFSUID, uintptr(uid), 0, 0)
	// verify: setfsuid returns the previous value; asking again tells what is in force
	cur, _, _ := syscall.RawSyscall(syscall.SYS_SETFSUID, uintptr(uid), 0, 0)
	defer func() {
		syscall.RawSyscall(syscall.SYS_SETFSUID, 0, 0, 0)
		syscall.RawSyscall(syscall.SYS_SETFSGID, 0, 0, 0)
	}()
	if int(cur) != uid {
		return fmt.Errorf("setfsuid(%d) not in force (got %d)", uid, cur)
	}
	f()
	return nil
}

// LockThread pins the calling goroutine to its OS thread for good.
func LockThread() { runtime.LockOSThread() }
