// Package rt is the run-time frame shared by all checks: deterministic PRNG streams, the report a worker produces,
// merging of reports, known-findings matching, evidence and replay files, verdict printing.
package rt

import (
	"bufio"
	"crypto/sha256"
	"encoding/json"
	"fmt"
	"hash/fnv"
	"math/rand/v2"
	"os"
	"path/filepath"
	"sort"
	"strings"
	"syscall"
	"time"
)

// VerifDir is the root of the verification tree.
var VerifDir = func() string {
	if d := os.Getenv("VERIF_DIR"); d != "" {
		return d
	}
	return "/verif"
}()

// Ctx is what a check's worker function receives.
type Ctx struct {
	Prop    string
	Tier    string // quick | thorough
	Seed    int64
	Shard   int
	NShards int
	Scratch string // per-worker scratch directory on tmpfs ("" when the check needs none)
	Rep     *Report
	Find    *Findings
}

// Quick reports whether the tier is quick.
func (c *Ctx) Quick() bool { return c.Tier != "thorough" }

// Pick returns q for the quick tier and t for the thorough one.
func (c *Ctx) Pick(q, t int) int {
	if c.Quick() {
		return q
	}
	return t
}

// Rand returns a PCG stream keyed by (seed, property, shard, name).
func (c *Ctx) Rand(name string) *rand.Rand {
	h := fnv.New64a()
	fmt.Fprintf(h, "%s|%d|%s", c.Prop, c.Shard, name)
	return rand.New(rand.NewPCG(uint64(c.Seed), h.Sum64()))
}

// Violation is one refuting observation.
type Violation struct {
	Sig    string `json:"sig"`
	What   string `json:"what"`
	Replay any    `json:"replay"`
}

// Report is what a worker observed.
type Report struct {
	Evaluations  int64             `json:"evaluations"`
	Sigs         map[string]int64  `json:"sigs"`       // distinct case signatures observed (all)
	Nontrivial   map[string]bool   `json:"nontrivial"` // the subset that is non-trivial by the check's rule
	Samples      []any             `json:"samples"`
	Violations   []Violation       `json:"violations"`
	Known        map[string]int64  `json:"known"` // finding id -> suppressed hits
	KnownSample  map[string]string `json:"known_sample"`
	KnownSigs    map[string]int64  `json:"known_sigs"` // distinct suppressed signatures (capped)
	Inconclusive []string          `json:"inconclusive"`
	Counters     map[string]int64  `json:"counters"`
	Notes        []string          `json:"notes"`
	violSeen     map[string]bool
}

// NewReport returns an empty report.
func NewReport() *Report {
	return &Report{Sigs: map[string]int64{}, Nontrivial: map[string]bool{}, Known: map[string]int64{}, KnownSample: map[string]string{}, KnownSigs: map[string]int64{},
		Counters: map[string]int64{}, violSeen: map[string]bool{}}
}

// Case records one evaluated case with its signature.
func (r *Report) Case(sig string, nontrivial bool) {
	r.Evaluations++
	r.Sigs[sig]++
	if nontrivial {
		r.Nontrivial[sig] = true
	}
}

// Count adds to a named counter.
func (r *Report) Count(name string, n int64) { r.Counters[name] += n }

// Sample keeps up to max samples.
func (r *Report) Sample(s any, max int) {
	if len(r.Samples) < max {
		r.Samples = append(r.Samples, s)
	}
}

// Violate records a violation unless one with the same signature was already recorded by this worker.
func (r *Report) Violate(sig, what string, replay any) {
	if r.violSeen == nil {
		r.violSeen = map[string]bool{}
	}
	r.Counters["violating_observations"]++
	if r.violSeen[sig] {
		return
	}
	r.violSeen[sig] = true
	if len(r.Violations) < 200 {
		r.Violations = append(r.Violations, Violation{Sig: sig, What: what, Replay: replay})
	}
}

// Disagree routes a disagreement: suppressed if its signature equals an open known finding of the property,
// a violation otherwise. It returns true when suppressed.
func (c *Ctx) Disagree(sig, what string, replay any) bool {
	if id := c.Find.Match(c.Prop, sig); id != "" {
		c.Rep.Known[id]++
		if _, ok := c.Rep.KnownSample[id]; !ok {
			c.Rep.KnownSample[id] = sig
		}
		if _, ok := c.Rep.KnownSigs[sig]; ok || len(c.Rep.KnownSigs) < 2000 {
			c.Rep.KnownSigs[sig]++
		}
		return true
	}
	c.Rep.Violate(sig, what, replay)
	return false
}

// EmitAndExit prints the worker's report and ends the process: used by a watcher goroutine when the goroutine that runs
// the workload is stuck inside the code under test.
func (c *Ctx) EmitAndExit() {
	b, _ := json.Marshal(c.Rep)
	w := bufio.NewWriter(os.Stdout)
	w.WriteString("REPORT ")
	w.Write(b)
	w.WriteString("\n")
	w.Flush()
	os.Exit(0)
}

// CPUWatch starts a watcher for workloads made of short pure calls: progress() returns a counter that the workload
// advances before every call and cur() describes the call in progress. When one call has consumed more than limit
// seconds of the process's CPU time (not wall-clock time: a loaded machine does not advance it), stuck(desc) is called
// from the watcher goroutine.
func CPUWatch(limit float64, progress func() int64, cur func() string, stuck func(desc string)) {
	cpu := func() float64 {
		var ru syscall.Rusage
		_ = syscall.Getrusage(syscall.RUSAGE_SELF, &ru)
		return float64(ru.Utime.Sec+ru.Stime.Sec) + float64(ru.Utime.Usec+ru.Stime.Usec)/1e6
	}
	go func() {
		last, since := progress(), cpu()
		for {
			time.Sleep(500 * time.Millisecond)
			if p := progress(); p != last {
				last, since = p, cpu()
				continue
			}
			if cpu()-since > limit {
				stuck(cur())
				return
			}
		}
	}()
}

// Merge adds o into r.
func (r *Report) Merge(o *Report) {
	r.Evaluations += o.Evaluations
	for k, v := range o.Sigs {
		r.Sigs[k] += v
	}
	for k := range o.Nontrivial {
		r.Nontrivial[k] = true
	}
	for _, s := range o.Samples {
		if len(r.Samples) < 8 {
			r.Samples = append(r.Samples, s)
		}
	}
	for _, v := range o.Violations {
		if r.violSeen == nil {
			r.violSeen = map[string]bool{}
		}
		if !r.violSeen[v.Sig] {
			r.violSeen[v.Sig] = true
			r.Violations = append(r.Violations, v)
		}
	}
	for k, v := range o.Known {
		r.Known[k] += v
	}
	for k, v := range o.KnownSigs {
		if _, ok := r.KnownSigs[k]; ok || len(r.KnownSigs) < 2000 {
			r.KnownSigs[k] += v
		}
	}
	for k, v := range o.KnownSample {
		if _, ok := r.KnownSample[k]; !ok {
			r.KnownSample[k] = v
		}
	}
	r.Inconclusive = append(r.Inconclusive, o.Inconclusive...)
	for k, v := range o.Counters {
		r.Counters[k] += v
	}
	r.Notes = append(r.Notes, o.Notes...)
}

// Finding is one entry of known_findings.json.
type Finding struct {
	Status   string   `json:"status"` // open | fixed
	Property string   `json:"property"`
	ID       string   `json:"id"`
	Sigs     []string `json:"sigs"` // exact signatures ('*' matches any run of characters other than '|')
	What     string   `json:"what"`
	Commit   string   `json:"commit,omitempty"`
	Witness  any      `json:"witness,omitempty"`
}

// Findings is the loaded known-findings file.
type Findings struct {
	List []Finding `json:"findings"`
}

// LoadFindings reads known_findings.json (missing file = empty list).
func LoadFindings() *Findings {
	f := &Findings{}
	b, err := os.ReadFile(filepath.Join(VerifDir, "known_findings.json"))
	if err != nil {
		return f
	}
	if err := json.Unmarshal(b, f); err != nil {
		fmt.Fprintln(os.Stderr, "CHECK-ERROR cannot parse known_findings.json:", err)
		os.Exit(2)
	}
	return f
}

func globMatch(pat, s string) bool {
	if !strings.Contains(pat, "*") {
		return pat == s
	}
	parts := strings.Split(pat, "*")
	if !strings.HasPrefix(s, parts[0]) {
		return false
	}
	s = s[len(parts[0]):]
	for i := 1; i < len(parts); i++ {
		p := parts[i]
		if i == len(parts)-1 {
			if !strings.HasSuffix(s, p) {
				return false
			}
			mid := s[:len(s)-len(p)]
			return !strings.Contains(mid, "|")
		}
		j := strings.Index(s, p)
		if j < 0 || strings.Contains(s[:j], "|") {
			return false
		}
		s = s[j+len(p):]
	}
	return true
}

// Match returns the id of the open finding of prop whose signature list contains sig, or "".
func (f *Findings) Match(prop, sig string) string {
	if f == nil {
		return ""
	}
	for _, k := range f.List {
		if k.Status != "open" || k.Property != prop {
			continue
		}
		for _, s := range k.Sigs {
			if globMatch(s, sig) {
				return k.ID
			}
		}
	}
	return ""
}

// Open returns the open findings of a property.
func (f *Findings) Open(prop string) []Finding {
	var out []Finding
	for _, k := range f.List {
		if k.Status == "open" && k.Property == prop {
			out = append(out, k)
		}
	}
	return out
}

// Meta describes a check for the evidence file.
type Meta struct {
	Level       string
	Rule        string
	Assumptions []string
	Exhaustive  bool
	MinEvals    int64 // floor below which the run "observed nothing"
	MinDistinct int
}

// Finish prints the verdict lines, writes replays and evidence, and returns the process exit code.
func Finish(prop, tier string, seed int64, rep *Report, find *Findings, meta Meta, start time.Time) int {
	code := 0
	// known findings that were observed
	var ids []string
	for id := range rep.Known {
		ids = append(ids, id)
	}
	sort.Strings(ids)
	whatOf := map[string]string{}
	for _, k := range find.List {
		whatOf[k.ID] = k.What
	}
	for _, id := range ids {
		fmt.Printf("KNOWN-FINDING: property=%s %s: %s (observed %d times, e.g. %s)\n", prop, id, whatOf[id], rep.Known[id], rep.KnownSample[id])
	}
	for _, n := range rep.Inconclusive {
		fmt.Printf("INCONCLUSIVE property=%s %s\n", prop, n)
	}
	// violations
	sort.SliceStable(rep.Violations, func(i, j int) bool { return rep.Violations[i].Sig < rep.Violations[j].Sig })
	if old, _ := filepath.Glob(filepath.Join(VerifDir, "replays", prop+"-*.json")); len(old) > 0 {
		for _, f := range old {
			_ = os.Remove(f)
		}
	}
	if len(rep.Violations) > 0 {
		_ = os.MkdirAll(filepath.Join(VerifDir, "replays"), 0o755)
	}
	for i, v := range rep.Violations {
		h := sha256.Sum256([]byte(v.Sig))
		path := filepath.Join(VerifDir, "replays", fmt.Sprintf("%s-%x.json", prop, h[:6]))
		b, _ := json.MarshalIndent(map[string]any{"property": prop, "tier": tier, "seed": seed, "signature": v.Sig, "what": v.What, "replay": v.Replay}, "", " ")
		_ = os.WriteFile(path, b, 0o644)
		if i < 40 {
			fmt.Printf("VIOLATION property=%s replay=%s\n", prop, path)
			fmt.Printf("  what: %s\n  sig:  %s\n", v.What, v.Sig)
		}
		code = 1
	}
	distinct := len(rep.Nontrivial)
	if code == 0 && (rep.Evaluations < meta.MinEvals || distinct < meta.MinDistinct || distinct < 2) {
		fmt.Printf("CHECK-ERROR property=%s observed nothing: evaluations=%d distinct_nontrivial=%d (floors %d/%d)\n", prop, rep.Evaluations, distinct, meta.MinEvals, meta.MinDistinct)
		code = 2
	}
	cov := map[string]any{
		"evaluations":           rep.Evaluations,
		"distinct_nontrivial":   distinct,
		"distinct_signatures":   len(rep.Sigs),
		"rule":                  meta.Rule,
		"samples":               rep.Samples,
		"exhaustive":            meta.Exhaustive,
		"counters":              rep.Counters,
		"suppressed_by_finding": rep.Known,
		"inconclusive":          len(rep.Inconclusive),
	}
	if len(rep.Samples) == 0 {
		cov["samples"] = []any{"(no sample recorded)"}
	}
	if len(rep.Notes) > 0 {
		n := rep.Notes
		if len(n) > 20 {
			n = n[:20]
		}
		cov["notes"] = n
	}
	// a few of the most frequent signatures, so a reader sees what was observed
	type kv struct {
		K string
		V int64
	}
	var top []kv
	for k, v := range rep.Sigs {
		top = append(top, kv{k, v})
	}
	sort.Slice(top, func(i, j int) bool {
		if top[i].V != top[j].V {
			return top[i].V > top[j].V
		}
		return top[i].K < top[j].K
	})
	if len(top) > 12 {
		top = top[:12]
	}
	var tops []string
	for _, t := range top {
		tops = append(tops, fmt.Sprintf("%d x %s", t.V, t.K))
	}
	cov["most_frequent_signatures"] = tops
	if len(rep.KnownSigs) > 0 {
		var ks []string
		for k, v := range rep.KnownSigs {
			ks = append(ks, fmt.Sprintf("%s (x%d)", k, v))
		}
		sort.Strings(ks)
		cov["signatures_suppressed_by_findings"] = ks
	}
	ev := map[string]any{
		"property_id": prop,
		"tier":        tier,
		"seed":        seed,
		"level":       meta.Level,
		"coverage":    cov,
		"assumptions": meta.Assumptions,
		"wall_s":      time.Since(start).Seconds(),
		"violations":  len(rep.Violations),
	}
	evDir := filepath.Join(VerifDir, "evidence")
	if d := os.Getenv("VERIF_EVIDENCE_DIR"); d != "" {
		evDir = d // trial runs against a deliberately broken tree must not overwrite the evidence of the real one
	}
	_ = os.MkdirAll(evDir, 0o755)
	b, _ := json.MarshalIndent(ev, "", " ")
	if err := os.WriteFile(filepath.Join(evDir, prop+".json"), b, 0o644); err != nil {
		fmt.Printf("CHECK-ERROR cannot write evidence: %v\n", err)
		return 2
	}
	verdict := "HELD-ON-OBSERVED"
	if code == 1 {
		verdict = "VIOLATED"
	} else if code == 2 {
		verdict = "CHECK-ERROR"
	}
	fmt.Printf("%s property=%s tier=%s seed=%d evaluations=%d distinct_nontrivial=%d known_hits=%d violations=%d inconclusive=%d wall=%.1fs\n",
		verdict, prop, tier, seed, rep.Evaluations, distinct, sumVals(rep.Known), len(rep.Violations), len(rep.Inconclusive), time.Since(start).Seconds())
	return code
}

func sumVals(m map[string]int64) int64 {
	var s int64
	for _, v := range m {
		s += v
	}
	return s
}
