// Package sched is a deterministic scheduler over the verif lock hook: workers are real goroutines running real avfs
// calls, exactly one runs at a time, and the only scheduling points are the hook (immediately before every RWMutex
// acquisition of memfs/orefafs/memidm) and the boundaries of calls. Deadlock is a logical fact: every unfinished worker is
// parked at a lock it cannot get.
package sched

import (
	"fmt"
	"runtime"
	"sync"

	"verif/internal/hook"
)

// Verdict of one execution.
type Verdict int

const (
	Completed Verdict = iota
	Deadlock
	Runaway
)

type msgKind int

const (
	mHook msgKind = iota
	mBoundary
	mDone
)

type msg struct {
	w    int
	kind msgKind
}

type worker struct {
	id      int
	resume  chan struct{}
	done    bool
	started bool
	atHook  bool
	mu      *sync.RWMutex
	write   bool
	body    func(w int)
	events  int
}

// Decision records one scheduling decision.
type Decision struct {
	Enabled []int
	Chosen  int
	Last    int // worker that ran before the decision (-1 at the start)
}

// Exec is one controlled execution.
type Exec struct {
	workers           []*worker
	ctl               chan msg
	running           int
	last              int
	Clock             int64 // logical time: number of decisions taken so far
	Trace             []Decision
	Sites             []uint32 // (worker, lock site) sequence: identifies the interleaving
	Budget            int      // maximum hook events per worker (runaway guard)
	choose            func(e *Exec, enabled []int) int
	Switches          int // context switches away from a worker that could have continued (preemptions) or not
	Preempts          int
	MaxInCallSwitches int
}

var active *Exec

// Install sets the lock hook to the scheduler's. While no execution is running, or when the controller itself calls into
// avfs (setup, snapshots), the hook passes through.
func Install() {
	hook.Set(func(mu *sync.RWMutex, write bool) {
		e := active
		if e == nil || e.running < 0 {
			return
		}
		e.hook(mu, write)
	})
}

// New prepares an execution of the given worker bodies. choose picks the next worker among the enabled ones.
func New(bodies []func(w int), choose func(e *Exec, enabled []int) int) *Exec {
	e := &Exec{ctl: make(chan msg), running: -1, last: -1, Budget: 100000, choose: choose}
	for i, b := range bodies {
		e.workers = append(e.workers, &worker{id: i, resume: make(chan struct{}), body: b})
	}
	return e
}

// Running returns the id of the running worker (-1 when the controller runs).
func (e *Exec) Running() int { return e.running }

// Last returns the worker that ran before the current decision.
func (e *Exec) Last() int { return e.last }

// Boundary is called by worker bodies between calls: a scheduling point that is not a lock site.
func (e *Exec) Boundary() {
	w := e.workers[e.running]
	e.ctl <- msg{w: w.id, kind: mBoundary}
	<-w.resume
}

func sitePC() uint32 {
	var pcs [1]uintptr
	runtime.Callers(5, pcs[:]) // the avfs function that is about to lock
	return uint32(pcs[0])
}

func (e *Exec) hook(mu *sync.RWMutex, write bool) {
	w := e.workers[e.running]
	w.events++
	e.Sites = append(e.Sites, uint32(w.id)<<28^(sitePC()&0x0fffffff))
	if mu == nil {
		// no lock is awaited (the point before a TryLock): a plain scheduling point
		e.ctl <- msg{w: w.id, kind: mBoundary}
		<-w.resume
		return
	}
	w.mu, w.write, w.atHook = mu, write, true
	e.ctl <- msg{w: w.id, kind: mHook}
	<-w.resume
	// the controller only resumes a worker parked at a hook when the lock can be acquired, and nobody else runs until the
	// next scheduling point: the real Lock/RLock that follows cannot block.
	w.atHook = false
	w.mu = nil
}

// acquirable decides, on behalf of a parked worker, whether its lock could be taken right now.
func (e *Exec) acquirable(w *worker) bool {
	if w.write {
		if w.mu.TryLock() {
			w.mu.Unlock()
			return true
		}
		return false
	}
	// a writer already waiting on the same mutex blocks new readers (sync.RWMutex semantics)
	for _, o := range e.workers {
		if o != w && !o.done && o.atHook && o.write && o.mu == w.mu {
			if o.mu.TryLock() {
				o.mu.Unlock()
			} else {
				return false
			}
		}
	}
	if w.mu.TryRLock() {
		w.mu.RUnlock()
		return true
	}
	return false
}

// Run executes until every worker finished, a deadlock is decided or the budget is exceeded.
// It returns the verdict and, for a deadlock, a description of who waits for what.
func (e *Exec) Run() (Verdict, string) {
	active = e
	defer func() { e.running = -1; active = nil }()
	inCall := 0
	for {
		var enabled []int
		unfinished := 0
		for _, w := range e.workers {
			if w.done {
				continue
			}
			unfinished++
			if !w.atHook || e.acquirable(w) {
				enabled = append(enabled, w.id)
			}
		}
		if unfinished == 0 {
			return Completed, ""
		}
		if len(enabled) == 0 {
			desc := ""
			for _, w := range e.workers {
				if !w.done {
					desc += fmt.Sprintf("worker %d is parked before a lock (write=%v) it can never get; ", w.id, w.write)
				}
			}
			return Deadlock, desc
		}
		pick := e.choose(e, enabled)
		e.Trace = append(e.Trace, Decision{Enabled: enabled, Chosen: pick, Last: e.last})
		if e.last >= 0 && pick != e.last {
			e.Switches++
			lw := e.workers[e.last]
			if !lw.done && contains(enabled, e.last) {
				e.Preempts++
			}
			if !lw.done && lw.atHook {
				inCall++
				if inCall > e.MaxInCallSwitches {
					e.MaxInCallSwitches = inCall
				}
			}
		}
		e.Clock++
		w := e.workers[pick]
		e.running = pick
		if !w.started {
			w.started = true
			go func(w *worker) {
				<-w.resume
				w.body(w.id)
				e.ctl <- msg{w: w.id, kind: mDone}
			}(w)
		}
		w.resume <- struct{}{}
		m := <-e.ctl
		e.running = -1
		e.last = pick
		if m.kind == mDone {
			w.done = true
		}
		if w.events > e.Budget {
			return Runaway, fmt.Sprintf("worker %d passed %d lock sites", w.id, w.events)
		}
	}
}

func contains(s []int, x int) bool {
	for _, v := range s {
		if v == x {
			return true
		}
	}
	return false
}

// ---- strategies ----

// Prefix returns a chooser that follows the given choices and then runs non-preemptively (keeps the last worker while it is
// enabled, else the lowest enabled id).
func Prefix(prefix []int) func(e *Exec, enabled []int) int {
	return func(e *Exec, enabled []int) int {
		i := len(e.Trace)
		if i < len(prefix) && contains(enabled, prefix[i]) {
			return prefix[i]
		}
		if e.last >= 0 && contains(enabled, e.last) {
			return e.last
		}
		return enabled[0]
	}
}

// Random returns a chooser driven by next (a PRNG draw in [0,n)). With probability keep/16 it keeps the last worker.
func Random(next func(n int) int, keep int) func(e *Exec, enabled []int) int {
	return func(e *Exec, enabled []int) int {
		if e.last >= 0 && contains(enabled, e.last) && next(16) < keep {
			return e.last
		}
		return enabled[next(len(enabled))]
	}
}

// Explore enumerates, depth-first and statelessly, every schedule of the program with at most maxPreempt preemptions and
// at most maxRuns executions. run must build a fresh state, create the execution with sched.New(bodies, sched.Prefix(p)),
// run it and return it. Explore returns the number of executions and whether the space was exhausted.
func Explore(maxPreempt, maxRuns int, run func(prefix []int) *Exec) (runs int, exhausted bool) {
	stack := [][]int{nil}
	for len(stack) > 0 {
		if runs >= maxRuns {
			return runs, false
		}
		p := stack[len(stack)-1]
		stack = stack[:len(stack)-1]
		e := run(p)
		runs++
		// count preemptions along the trace up to each index
		pre := 0
		choices := make([]int, len(e.Trace))
		for i, d := range e.Trace {
			choices[i] = d.Chosen
		}
		for i, d := range e.Trace {
			if i >= len(p) {
				for _, alt := range d.Enabled {
					if alt == d.Chosen {
						continue
					}
					cost := pre
					if d.Last >= 0 && alt != d.Last && contains(d.Enabled, d.Last) {
						cost++
					}
					if cost <= maxPreempt {
						np := append(append([]int(nil), choices[:i]...), alt)
						stack = append(stack, np)
					}
				}
			}
			if d.Last >= 0 && d.Chosen != d.Last && contains(d.Enabled, d.Last) {
				pre++
			}
		}
	}
	return runs, true
}

// InterleavingHash identifies the interleaving of an execution by its (worker, lock site) sequence.
func (e *Exec) InterleavingHash() uint64 {
	h := uint64(1469598103934665603)
	for _, s := range e.Sites {
		h ^= uint64(s)
		h *= 1099511628211
	}
	return h
}
