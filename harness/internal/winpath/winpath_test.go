package winpath

import "testing"

// A few of the toolchain's own Windows test cases: the copy must behave as the original.
func TestCopy(t *testing.T) {
	for _, c := range [][2]string{{`c:\abc\def\..\..`, `c:\`}, {`\\host\share\a\..`, `\\host\share\`}, {`c:abc\..\..\.\.\..\def`, `c:..\..\def`}, {`a/b`, `a\b`}, {`\??\c:\..\x`, `\??\c:\x`}} {
		if g := Clean(c[0]); g != c[1] {
			t.Errorf("Clean(%q) = %q, want %q", c[0], g, c[1])
		}
	}
	if g := Join(`C:`, `a`); g != `C:a` {
		t.Errorf("Join = %q", g)
	}
	if g := Join(`\\host`, `share`, `x`); g != `\\host\share\x` {
		t.Errorf("Join = %q", g)
	}
	if !IsAbs(`C:\x`) || IsAbs(`C:x`) || IsAbs(`\x`) {
		t.Errorf("IsAbs")
	}
	if g := VolumeName(`\\.\C:\x`); g != `\\.\C:` {
		t.Errorf("VolumeName = %q", g)
	}
	if r, err := Rel(`C:\a`, `c:\A\b`); err != nil || r != `b` {
		t.Errorf("Rel = %q %v", r, err)
	}
	if m, err := Match(`a\*`, `a\b`); err != nil || !m {
		t.Errorf("Match = %v %v", m, err)
	}
}
