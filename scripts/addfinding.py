#!/usr/bin/env python3
# usage: addfinding.py fixed <prop> <id> <commit-subject-substring> <what>   |   addfinding.py open <prop> <id> <what> <sig> [<sig>...]
import json,sys,subprocess
d=json.load(open('/verif/known_findings.json'))
d['findings']=[f for f in d['findings'] if f['id']!=sys.argv[3]]
if sys.argv[1]=='fixed':
    log=subprocess.check_output(['git','-C','/repo','log','--format=%h %s']).decode().split('\n')
    m=[l.split()[0] for l in log if sys.argv[4] in l]; assert len(m)==1,m
    d['findings'].append(dict(status='fixed',property=sys.argv[2],id=sys.argv[3],commit=m[0],subject=sys.argv[4],what=sys.argv[5]))
else:
    d['findings'].append(dict(status='open',property=sys.argv[2],id=sys.argv[3],sigs=sys.argv[5:],what=sys.argv[4]))
json.dump(d,open('/verif/known_findings.json','w'),indent=1)
