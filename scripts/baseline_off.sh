#!/bin/bash
# Runs the repository's pinned baseline (hooks OFF: no build tags) and checks that every test of
# BASELINE.json's stable_pass list passes. Exit 0 iff all of them pass.
export GOFLAGS=-mod=mod GOPROXY=off GOSUMDB=off GOTOOLCHAIN=local
REPO=${VERIF_REPO:-/repo}
OUT=$(mktemp -d /dev/shm/verif-baseline.XXXXXX)
trap 'rm -rf "$OUT"' EXIT
for m in . ./mage; do
  (cd "$REPO/$m" && go test -mod=mod -json -vet=off -count=1 -timeout 25m ./... ) >> "$OUT/gotest.json" 2>>"$OUT/stderr"
done
python3 - "$OUT/gotest.json" <<'PY'
import json,sys
base=json.load(open('/root/.vp/BASELINE.json'))
want=set(base['stable_pass'])
passed=set(); failed=set()
for l in open(sys.argv[1]):
    try: e=json.loads(l)
    except Exception: continue
    t=e.get('Test')
    if not t: continue
    k=e['Package']+'::'+t
    if e.get('Action')=='pass': passed.add(k)
    elif e.get('Action')=='fail': failed.add(k)
missing=sorted(want-passed)
print('baseline: %d wanted, %d passed of those, %d missing, %d failed overall'%(len(want),len(want&passed),len(missing),len(failed)))
for m in missing[:40]: print('  MISSING',m)
sys.exit(1 if missing else 0)
PY
