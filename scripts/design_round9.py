#!/usr/bin/env python3
# One-off editor used at the end of round 9: inserts the round-9 passages into DESIGN.md (idempotent: refuses to run twice).
import re,sys
p='/verif/DESIGN.md'; s=open(p).read()
if 'ninth round' in s: sys.exit('already applied')
NSEED,NMISS,NFIX=sys.argv[1],sys.argv[2],sys.argv[3]   # e.g. 150 79 79

def rep(old,new,count=1):
    global s
    assert s.count(old)>=1,old[:60]
    s=s.replace(old,new,count)

rep("scripts/seedsweep.sh             # re-confirms the 136 stored seeded changes and runs the checks against each",
    "scripts/seedsweep2.sh            # re-confirms the %s stored seeded changes (eight at a time) and runs the checks against each"%NSEED)
rep("# 136 seeded changes from sub-agents","# %s seeded changes from sub-agents"%NSEED)
rep("75 `fix:` commits exist; 80 fixed entries","%s `fix:` commits exist; %d fixed entries"%(NFIX,80+int(NFIX)-75))
rep("What was done instead (§8): 136 fresh sub-agents,\neight per property (eight rounds;","What was done instead (§8): %s fresh sub-agents,\neight or nine per property (eight full rounds and a ninth round for fourteen properties;"%NSEED)
rep("Sixty-seven of the 136 were missed by the check of their own property at first (fourteen",
    "%s of the %s were missed by the check of their own property at first (fourteen"%(NMISS,NSEED))
rep("""the eighth round, a deadlock of two directory moves into each other's subtree) — each was first
reproduced by a strengthened check, then repaired.""",
"""the eighth round, a deadlock of two directory moves into each other's subtree; in the ninth round
a window in that very repair through which two such moves still formed a cycle under real
parallelism, the link budget charged for a final link that is not followed, and two index
overflows — `WriteAt` at the top of the offset range, `ReadDir`/`Readdirnames` with a batch size
near the top of the `int` range on a handle that has already delivered a batch) — each was first
reproduced by a strengthened check, then repaired.

The **ninth round** (fourteen agents: C01–C12 without C13, plus C14 and C16) was told everything
above and given ideas nobody had used: failure functions exchanged under open handles, the root as
operand, closed handles met again after another open, budgets exactly at their limits, rescans of
a directory handle. Its most useful result was not a seeded change but a sentence in one agent's
report: the lock-granularity scheduler of C06 *cannot see* a window that contains no lock
acquisition. That is a limit of the instrumentation, not of the oracle; the answer was another
scheduling point (a fourth `verif hook:` commit — a nil-mutex yield between the validation of the
rename sequence counter and its increment), after which the existing four-directory program
reported the violation on the unchanged tree within the quick budget (§7.2).""")
rep("### 7.2 Genuine defects repaired (`fix:` commits in /repo, 75)","### 7.2 Genuine defects repaired (`fix:` commits in /repo, %s)"%NFIX)
rep("""136 changes produced by fresh sub-agents (eight rounds of 17; every round""","""%s changes produced by fresh sub-agents (eight rounds of 17 and a ninth of 14; every round"""%NSEED)
rep("""**Misses and what was done.** Sixty-seven of the 136 were not caught""","""**Misses and what was done.** %s of the %s were not caught"""%(NMISS,NSEED))
rep("""C14-s7 by C10); none was accepted""","""C14-s7 by C10, C01-s9 by C04, C05-s9 by C17, C06-s9 — a lock-order inversion — by C07); none was accepted""")

# 7.1 false alarms
rep("""### 7.2 Genuine defects repaired""","""38. **C01, a second non-unique sentinel.** When the generator began to issue `Chtimes` with only
    the modification time given, the executor's fixed sentinel for that case stayed on a directory
    of one side after an earlier call while the other side's directory had been touched since
    (directory times are not compared): reported as a tree difference. C01 gives every `Chtimes`
    of a history its own sentinel again, whatever the generator asked for.
39. **C12, no handle to exchange the function under.** On a generated tree without a usable `/tmp`
    the new scenario "function exchanged under an open handle" had no handle and reported
    `nohandle` as a refusal that never consulted the function. The scenario is skipped (counted)
    when the handle cannot be opened on both sides.

### 7.2 Genuine defects repaired""")

# 7.2 new bullet before 7.3
rep("""### 7.3 Genuine findings left open""","""* **Round 9** — *C06*: two `Rename` calls through two views, `/w/a/b → /w/c/e/b` and `/w/c/e →
  /w/a/b/e`, hold disjoint pairs of directories; both validated the rename sequence counter before
  either incremented it, both returned nil, and `b` and `e` left the tree as a cycle. Reported by
  the C06 agent of the round as reproducible 4 times in 45 000 parallel trials; invisible to the
  scheduler until the window became a scheduling point (hook commit), then reported by the
  dedicated program of round 8 at quick. Repair: validation and move are one step under a mutex
  shared by all views (`renameMu`). *C04/C01*: `Lstat`/`Readlink`/`Remove`… of a link behind a
  directory part that follows 40 links returned ELOOP — the budget was charged for the final link
  before the test "not followed" (reported by the C01 agent; reproduced by the budget part of C04
  extended with a link behind the chain). *C03*: `Rename(/w/d1, /w/d1/d2/into)` by a user who may
  not write to `d2` returned EACCES, the kernel EINVAL (found when directory moves joined the C03
  call list for seeded change C03-s9, which is a variant of the same ordering). *C07*:
  `WriteAt(b, off)` with `off+len(b)` beyond the int64 range indexed out of range, and
  `ReadDir(n)`/`Readdirnames(n)` with `n` near the top of the int range on a handle that had already
  delivered a batch sliced with a negative bound (both reported by the C07 agent; MemFS and
  OrefaFS; reproduced by `c07SeekExtremes` + the new `c07BatchExtremes`; EINVAL as pwrite(2), and
  a saturating bound).

### 7.3 Genuine findings left open""")

# per-property additions
rep("""* **B**: quick 6 000 BFS cases + 720 histories""","""* **Round 9**: `Chtimes` carries two *different* sentinel times (a layer that swaps them shows),
  the generator also omits one of the two; a link-budget part (chains of 39/40/41 and 254/255/256
  links to a directory and to a file, a link that is not followed behind the chain — after C01-s9).
* **B**: quick 6 000 BFS cases + 720 histories""")
rep("""* **D**: after *every* step: offset and Stat of every open handle""","""  **After io.EOF** (round 9, C14-s9): one entry is removed and one created; whatever the handle does
  next — stay at the end like `os.File`, or start over like MemFS — no batch delivers a name that is
  gone, nor a name twice before the next io.EOF (sound for both behaviours; nothing else is demanded).
* **D**: after *every* step: offset and Stat of every open handle""")
rep("""* **D**: allow/refuse, errno, values, whole tree afterwards (owner, group, mode of created objects).""","""  Round 9 added moves of directories: to another parent, below themselves, onto an existing one.
* **D**: allow/refuse, errno, values, whole tree afterwards (owner, group, mode of created objects).""")
rep("""* **L**: directory link counts not judged; composites may leave a partial effect when they fail.""","""  `VolumeAdd` names the volume by its bare name or by a path on it (round 9, C05-s9).
* **L**: directory link counts not judged; composites may leave a partial effect when they fail.""")
rep("""* **B**: quick 3 400 programs, 266 k schedules""","""  Round 9: a scheduling point *without a lock* between the validation of the rename sequence and its
  increment (hook), and programs in which worker 0 acts through `Sub("/w/d")` and creates in the
  root of its view while the parent removes, moves or replaces `/w/d` (after C11-s9).
* **B**: quick 3 400 programs, 266 k schedules""")

rep("""  out the base's own storage shows as a changed base (after C09-s6).""","""  out the base's own storage shows as a changed base (after C09-s6). Every history ends with a
  **closed-handle tail** (round 9, C09-s9): a handle is opened and closed, others are opened, then the
  closed one is read, stat'ed, sought and closed again - each answer must be the twin's, and the
  handles opened since must not be affected.""")
rep("""  view's user cannot search is an ordinary directory, not the administrator's `/`).""","""  view's user cannot search is an ordinary directory, not the administrator's `/`).
* Round 9: the sentinel modification times a `Chtimes` set are part of the tree comparison with the
  twin (`SnapOpts.SentMtime`; also in C10 and C12), and creations in the root of a view raced by a
  removal of that directory through the parent are scheduled by C06/C07 (`c06ViewDirs`, after C11-s9:
  C11 itself is sequential).""")
rep("""  stacked on the first (after C12-s8). No open finding""","""  stacked on the first (after C12-s8). (e) since round 9 the function is **exchanged while a handle
  is open** (C12-s9): `ReadOnlyFunc`, then a plan failing the very primitive, then `OkFunc` again -
  every File call must consult the function installed at the time of the call. No open finding""")
rep("""  of the source must still arrive) in a worker of the `avfs_setostype` build.""","""  of the source must still arrive) in a worker of the `avfs_setostype` build; since round 9 one
  case in four *mirrors*: the same path string on two distinct file systems of one kind (C16-s9).""")

rep("""  position, a panic or a lock left behind (after C07-s8).""","""  position, a panic or a lock left behind (after C07-s8). Round 9: a `WriteAt` whose end lies beyond
  the int64 range must be refused (not index out of range); **(a5)** batch sizes at the ends of the
  `int` range on a directory handle whose cursor is not at the start (`c07BatchExtremes`); **(a6)**
  the helpers of the top-level package (IsEmpty, Exists, DirExists, IsDir, ReadDir, ReadFile, Glob,
  WalkDir, HashFile, CopyFile, WriteFile, the temp helpers, MkdirAll, RemoveAll) with *the k-th
  primitive of the call* failing, k = 0...5, three error classes, four kinds of path - a helper that
  looks twice at a path must survive the path being gone the second time (`c07KthFault`, after C07-s9).
  The root as operand under `-race` is C08's new workload (2b), after C08-s9.""")

rows9="""| C01-s9 | `EvalSymlinks` giving up at the 255th link: C01 had no chains (C04's chain of 255 caught it straight away) | C01: link-budget part - chains of 39/40/41 and 254/255/256 links to a directory and to a file |
| C03-s9 | `Rename` checking the write permission of the moved directory before "below itself": no directory was ever moved by C03 | C03: six moves of directories - which showed that the unchanged tree had the same ordering fault one check earlier (parents' permissions before "below itself"), repaired (§7.2) |
| C05-s9 | `VolumeAdd` testing the raw argument for "exists": C05 only used bare volume names (C17's volume model, with its eleven spellings, caught it straight away) | C05: volumes named by a path on them |
| C06-s9 | OrefaFS `Rename` locking a subdirectory before its parent: a deadlock, which C06 counts and C07 reports - caught by C07 straight away (`c06Dedicated` + random programs) | none needed |
| C08-s9 | OrefaFS `RemoveAll("/")` deleting from the live children map of the root: the stress avoided the root as operand | C08 (2b): one goroutine fills and empties the root with RemoveAll("/") while others list, stat, glob and walk it by path and through a shared handle; the race detector reports `RemoveAll <-> dirEntries` (the workers then hang in the broken instance until the 300 s watchdog: inconclusive lines next to the violation) |
| C10-s9 | `BasePathFS.Chtimes` passing the two times swapped: every Chtimes of the harness gave the same value twice, and twins were compared without times | executor: a different sentinel for the access time; generator: one of the two omitted; `SnapOpts.SentMtime` - sentinel times in the twin comparisons of C10, C11 and C12 |
| C12-s9 | a handle keeping a *copy* of the FailFS it was opened through: the function was always installed before the history | C12 (e): the function exchanged under an open handle (read-only, a plan, let-through) |
| C14-s9 | a directory handle replaying its old snapshot when read again after io.EOF: what a handle does after io.EOF was never looked at (C14 itself is about fresh enumerations and stays silent) | C02: after the first io.EOF an entry is removed and one created; later batches never deliver a name that is gone, nor one twice |
@ROWS9B@"""
rows9=rows9.replace("@ROWS9B@",'| C07-s9 | `IsEmpty` ignoring the error of its second Stat (nil FileInfo dereferenced): faults were "every call of F fails", never "the second one" | C07 (a6): the helpers of the top-level package with the k-th primitive of the call failing |\n| C09-s9 | `RoFile` wrappers recycled through a pool, so that a closed handle comes back to life as somebody else\'s: nothing asked a closed handle anything after another open | C09: closed-handle tail after every history |\n| C11-s9 | creations in the root of a view skipping the re-validation "was my directory removed meanwhile": C11 is sequential, and the workers of C06 all had views of `/` | C06/C07: worker 0 acts through `Sub("/w/d")` while the parent removes, moves or replaces `/w/d` |\n| C16-s9 | a "same file" short cut comparing Type(), Name() and the path string: source and destination never had the same path | C16: one case in four mirrors the path on two distinct instances of one kind |')
rep("""|\n\nC06-s3 deleted a re-validation""","|\n"+rows9+"\n\nC06-s3 deleted a re-validation")

open(p,'w').write(s)
print('ok')
