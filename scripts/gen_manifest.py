#!/usr/bin/env python3
# Generates /verif/MANIFEST.json from the table below (kept in one place so that it is always valid).
import json,subprocess
hooks=subprocess.check_output(['git','-C','/repo','log','--format=%H %s']).decode().strip().split('\n')
hook_commits=[l.split()[0] for l in hooks if l.split(' ',1)[1].startswith('verif hook')]
C={}
def chk(pid,cat,text,note,tech,ref):
    C[pid]=dict(property_id=pid,quick_cmd='./check %s quick'%pid,thorough_cmd='./check %s thorough'%pid,evidence_file='/verif/evidence/%s.json'%pid,
      replay_cmd_template='cat {path}',engine='vcheck',
      level_claimed=dict(category=cat,text=text,design_ref=ref),level_note=note,technique=tech)
NA={}
def na(pid,reason): NA[pid]=reason

chk('C01','exploration',
 'Differential runtime monitor: every generated call is executed on MemFS/OrefaFS and, through osfs.OsFS, on the Linux kernel (tmpfs, inside a chroot so that absolute paths are literally the same); outcome class, returned values, the whole tree (Lstat/ReadDir/ReadFile/Readlink walk), WalkDir order and cwd are compared after every call. Bounded-exhaustive over distinct states of a small universe plus long random histories (modes incl. the setuid/setgid/sticky bits; every slice a read returned or a write was given is overwritten afterwards). Held on the executions observed, nothing more.',
 'tmpfs stands for a real Linux directory; the process is root; error wrapper fields, directory sizes/link counts, inode numbers and modification times (other than the sentinel a Chtimes just set) are outside the comparison.',
 'differential lockstep against the kernel (chroot on tmpfs) with state-aware generators','DESIGN.md §5 C01')
for p in ['C02','C03','C04','C05','C06','C07','C08','C09','C10','C11','C12','C13','C14','C15','C16','C17']:
    na(p,'check not registered yet (machinery under construction in this round; see DESIGN.md §5 for the design)')
exec(open('/verif/scripts/manifest_table.py').read()) if __import__('os').path.exists('/verif/scripts/manifest_table.py') else None
m=dict(version=1,setup_cmd='./setup.sh',
 hooks=dict(guard='verif',enable='go build -tags verif (plus avfs_setostype for C05/C13/C17 and for the Windows-typed workers of C07/C15/C16, -race for C08): ./check does it',
   baseline_off_cmd='/verif/scripts/baseline_off.sh',source_commits=hook_commits,add_only=True),
 engines=[dict(name='vcheck',path='/verif/harness',serves_properties=sorted(C),kind_free_text='Go harness: workload generators, kernel/twin/model oracles, lock-hook scheduler, race-detector driver')],
 checks=[C[k] for k in sorted(C)],
 not_applicable=[dict(property_id=k,reason=NA[k]) for k in sorted(NA) if k not in C],
 notes='All checks: ./check <Cnn> quick|thorough. Known findings: /verif/known_findings.json (never written at run time).')
json.dump(m,open('/verif/MANIFEST.json','w'),indent=1)
print('claimed',sorted(C),'na',sorted(k for k in NA if k not in C))
