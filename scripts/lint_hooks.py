#!/usr/bin/env python3
# Fails if a (R)Lock() call on an RWMutex of memfs / orefafs / memidm is not immediately preceded by the verif lock hook
# on the same operand: a later edit to avfs that adds an unhooked lock would silently shrink what the scheduler controls.
import re,glob,sys
repo='/repo'
bad=[]
pat=re.compile(r'^\s*(\S+\.(?:mu|grpMu|usrMu))\.(R?Lock)\(\)\s*$')
n=0
for d in ('vfs/memfs','vfs/orefafs','idm/memidm'):
    for f in glob.glob('%s/%s/*.go'%(repo,d)):
        if f.endswith('_test.go') or '/verif_' in f: continue
        lines=open(f).read().split('\n')
        for i,l in enumerate(lines):
            m=pat.match(l)
            if not m: continue
            n+=1
            want='verifYield(&%s, %s)'%(m.group(1),'true' if m.group(2)=='Lock' else 'false')
            if i==0 or lines[i-1].strip()!=want:
                bad.append('%s:%d %s not preceded by %s'%(f,i+1,l.strip(),want))
print('lock-hook lint: %d lock sites, %d unhooked'%(n,len(bad)))
for b in bad: print('  ',b)
sys.exit(1 if bad else 0)
