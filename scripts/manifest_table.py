# exec'd by gen_manifest.py: one chk(...) per registered check
chk('C09','exploration',
 'Snapshot monitor around every call made through rofs.RoFS, through the RoFiles it returns and through what RoFS.Sub returns: the full snapshot of the base (tree, bytes, modes, owners, mtimes) must be identical before and after; mutating calls must fail with a permission-class error; read-only calls must equal the same call on a twin base. Random trees and random histories over all VFS/File methods; held on the executions observed.',
 'bases are MemFS and OrefaFS; Sync on a RoFile is judged on the snapshot only; Chdir/SetUMask are view state',
 'before/after snapshot monitor + twin-instance differential','DESIGN.md §5 C09')
chk('C16','fault_enumeration',
 'Exhaustive single-fault enumeration through FailFS on the source and on the destination side of CopyFile / CopyFileHash / HashFile for every scenario (function x fs pair x size around the 32 KiB buffer x mode): a nil error must imply byte-equal destination, equal permission bits and the right digest (read back through the base file systems); a fault injected into a listed step must give a non-nil error.',
 'single faults only; a failing Close of the source is not in the statement (post-condition only); OsFS legs on tmpfs',
 'FailFS fault enumeration with read-back post-condition oracle','DESIGN.md §5 C16')
chk('C15','exploration',
 'Reference-model monitor: every return value of random sequential histories is checked against a two-map model, with a full by-name/by-id lookup sweep and the internal-map invariant hook after each call; concurrent histories run under the deterministic lock-hook scheduler (all schedules up to 2 preemptions, capped, plus random ones) and the recorded call/return events are checked for linearizability by porcupine against the same model.',
 'a fresh id is any id never handed out before; histories are short (<= 16 concurrent calls); porcupine Unknown = inconclusive',
 'reference model + porcupine linearizability over scheduler-forced histories','DESIGN.md §5 C15')
chk('C13','exploration',
 'Differential against the toolchain: Linux-typed MemFS vs path/filepath of the host, Windows-typed MemFS vs a copy of the toolchain\'s own Windows filepath code generated at setup; exhaustive over all strings up to length 4 (quick) / 5 (thorough) and all pairs up to length 2 / 3 over a 13-symbol alphabet, then seeded random inputs; PathIterator equations checked on all clean absolute paths up to 6/7 symbols with every splice.',
 'built with -tags avfs_setostype; Windows Abs only where lexical; reference = the toolchain that builds the harness (go1.23.5)',
 'toolchain differential, bounded-exhaustive + random','DESIGN.md §5 C13')
chk('C10','exploration',
 'Lockstep of BasePathFS(base,B) against a standalone file system holding B\'s content, with a snapshot monitor (incl. mtimes) on everything outside B around every call and a canary/base-path search in every returned value and error text; adversarial operands (..-chains, B\'s own prefix, names that exist only outside B), absolute/relative/unclean paths, Chdir through the wrapper, all path-taking calls and File methods.',
 'bases MemFS and OrefaFS; symlink-free content; File.Name/Abs/temp names checked for leaks only; the root as operand of destructive calls left to C07',
 'outside-of-base snapshot monitor + canaries + reference-instance lockstep','DESIGN.md §5 C10')
chk('C11','exploration',
 'Twin-instance lockstep: every call through a MemFS.Sub view (also nested views, views of /) is replayed on a twin parent with the dir-prefixed path as the same user/umask; outcomes must be equal and the full snapshots of both parents equal after every call; per-view SetUser/SetUMask/Chdir are followed by isolation assertions on the parent and a sibling view; parent-side changes are mixed in for visibility.',
 'symlink-free paths as the property states; Getwd/EvalSymlinks/temp names not compared; a failed RemoveAll ends the history (documented partial effect, map-order dependent)',
 'twin-instance differential + isolation assertions','DESIGN.md §5 C11')
chk('C12','fault_enumeration',
 'Per history: transparency under the always-OK function (results and base snapshot equal to a twin base; every direct primitive consults the callback with its own id), EVERY single-fault plan "fail the k-th consultation" (error returned - the injected value itself for a direct primitive - and base snapshot taken inside the callback at the injection moment equal to the one at return), "always fail primitive F" plans that also drive files and sub file systems handed out by the FailFS, and the ReadOnlyFunc plan under a base snapshot monitor incl. mtimes.',
 'single-fault and always-fail plans only (no multi-fault sequences); Glob is required not to report injected I/O errors (its contract)',
 'FailFS fault enumeration; the failure callback itself is the monitor','DESIGN.md §5 C12')
chk('C02','exploration',
 'Differential lockstep of handle operations against *os.File on tmpfs (chroot): random scenarios with up to 3 handles opened with any of the 36 flag sets on one file (optionally two hard links), 60 steps mixing all File methods with path-level Truncate/Rename/Link/Remove/Chmod/WriteFile; after every step the offset and Stat of every open handle and the content/attributes of every link are compared; bounded-exhaustive short sequences for every flag set; directory handles judged against the statement (each entry once, batches <= n, then EOF), including mixed ReadDir/Readdirnames.',
 'tmpfs/os.File as the reference; Seek whence 3/4 never generated; error strings, Fd, mtimes not compared',
 'differential lockstep against os.File with per-step observation sweep','DESIGN.md §5 C02')
chk('C04','exploration',
 'Differential against the kernel and path/filepath in a chroot on tmpfs: link graphs over three link names, a directory and a file with 17 target shapes per link (relative, ../, absolute, self, 2- and 3-cycles, chains, dangling, through a directory or another link), all query paths of <= 3 components, six queries on every path and 17 mutating calls on freshly rebuilt graphs with full-tree comparison; chains of 1..256 links for the loop budget. Quick: a seed-dependent 1/7 sample of the 17^3 graphs; thorough: all of them.',
 'MemFS only; lexically clean targets and query paths (unclean spellings are defined by Clean(), C01)',
 'differential lockstep against the kernel over bounded-exhaustive link graphs','DESIGN.md §5 C04')
chk('C03','exploration',
 'Differential against the Linux kernel under a switched fsuid/fsgid (locked OS thread, no supplementary groups) in a chroot on tmpfs: each of 38 path-taking calls is issued by a MemFS view with SetUser(u) and by the kernel-side thread with u\'s ids on an identical configuration of owners, groups and 9 permission bits over /w/d1/d2/x and /w/e1/y; allow/refuse, errno, returned values and the whole tree afterwards (owner, group, mode of created objects, umask effect) are compared. Exhaustive over the 512 modes of each single node (quick: 1/8 by seed) x 6 ownerships x 4 acting users, plus fully random configurations.',
 'only the 9 permission bits; fs.protected_hardlinks=1 cases excluded and counted; the partial effect of a failed RemoveAll is not compared',
 'kernel differential under per-thread setfsuid/setfsgid','DESIGN.md §5 C03')
chk('C14','exploration',
 'Differential against filepath.Glob / os.ReadDir / filepath.WalkDir on an identical tree built in lockstep on the kernel (chroot on tmpfs): ~35 patterns per tree (metacharacters, classes, negations, escapes, malformed patterns, relative patterns), ReadDir of every directory, WalkDir from several roots with the callback returning SkipDir / SkipAll / an error at every visit index (exhaustive per tree), and the helpers Exists/DirExists/IsDir/IsEmpty against Stat/ReadDir of the same file system; on MemFS (with symbolic links), OrefaFS, RoFS and FailFS over them, BasePathFS over a rebuilt copy.',
 'lexically clean patterns (unclean spellings, incl. the empty pattern, are defined by Clean() in C01); unreadable directories are exercised through C03',
 'kernel/stdlib differential with exhaustive walk cut-points','DESIGN.md §5 C14')
chk('C05','exploration',
 'Invariant monitors at quiescent points: after every call of long sequential histories with aliasing-biased and invalid operands (root, ., .., empty, ancestor/descendant pairs, multiply-linked destinations, unclean spellings, open handles) on MemFS and OrefaFS, Linux- and Windows-typed, a public-API checker (bounded walk, sorted duplicate-free listings, listed <=> Lstat, Nlink == number of SameFile paths, links agree on content/size/mode/owner), an internal checker through the verif hook (node graph / path index vs stored link counters) and a frame monitor (failed calls change nothing, successful calls change only a footprint computed in the pre-state) are evaluated. The same checkers run at the end of every schedule of C06.',
 'directory link counts not checked; composites may leave partial effects on failure; RemoveAll excepted as documented',
 'structural invariant hooks + before/after frame monitor','DESIGN.md §5 C05')
chk('C06','exploration',
 'Forced schedules at the lock hook: 2-3 goroutines x 1-2 primitive mutating calls on overlapping names (each on its own Sub view of one MemFS, or sharing one OrefaFS) are executed under a deterministic scheduler that serialises the goroutines and chooses who runs at every lock acquisition and call boundary: all schedules with <= 2 (quick) / 3 (thorough) preemptions up to a cap, then random schedules. Every execution is judged against all sequential orders of the same calls that respect program order and the observed real-time order, run on a fresh instance of the same implementation (results vector + final snapshot), the C05 public and internal invariants are evaluated at the end of every schedule, and concurrent CreateTemp/MkdirTemp must return distinct names.',
 'interleavings at lock-acquisition granularity (complete for code whose shared accesses are under its locks - C08 checks that); programs of at most 3 goroutines x 2 calls; composites are not used as single calls',
 'deterministic lock-hook scheduler (preemption-bounded systematic + random) with self-replay linearizability oracle','DESIGN.md §5 C06, Appendix D')
