# exec'd by gen_manifest.py: one chk(...) per registered check
chk('C09','exploration',
 'Snapshot monitor around every call made through rofs.RoFS, through the RoFiles it returns and through what RoFS.Sub returns: the full snapshot of the base (tree, bytes, modes, owners, mtimes) must be identical before and after; mutating calls must fail with a permission-class error; read-only calls must equal the same call on a twin base. Random trees and random histories over all VFS/File methods; held on the executions observed.',
 'bases are MemFS and OrefaFS; Sync on a RoFile is judged on the snapshot only; Chdir/SetUMask are view state',
 'before/after snapshot monitor + twin-instance differential','DESIGN.md §5 C09')
