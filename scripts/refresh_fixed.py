#!/usr/bin/env python3
# refresh the commit hashes of "fixed" entries of known_findings.json from their commit subjects (after a rebase of /repo)
import json,subprocess
d=json.load(open('/verif/known_findings.json'))
log=subprocess.check_output(['git','-C','/repo','log','--format=%h %s']).decode().split('\n')
for f in d['findings']:
    if f['status']=='fixed':
        m=[l.split()[0] for l in log if f['subject'] in l]
        assert len(m)==1,(f['id'],m)
        f['commit']=m[0]
json.dump(d,open('/verif/known_findings.json','w'),indent=1)
