#!/bin/bash
# usage: seedconfirm.sh <seed dir> <package dir> <-run regex> [extra go test flags...]
# Confirms a seeded change on a scratch clone of /repo (removed afterwards): the demonstration passes on the
# unchanged tree and fails with the change applied.
set -u
export GOFLAGS=-mod=mod GOPROXY=off GOSUMDB=off GOTOOLCHAIN=local
D=$(realpath $1); PKG=$2; RUN=$3; shift 3
W=$(mktemp -d /tmp/seedconfirm.XXXXXX)
trap 'rm -rf "$W"' EXIT
git clone -q /repo "$W/r" || exit 2
cp "$D/demo_test.go" "$W/r/$PKG/zz_seed_demo_test.go"
cd "$W/r"
go test -vet=off -count=1 -run "$RUN" "$@" ./$PKG/ > "$W/orig.txt" 2>&1; o=$?
git apply "$D/patch.diff" || { echo "PATCH-DOES-NOT-APPLY"; exit 2; }
go build ./... || { echo "MUTANT-DOES-NOT-BUILD"; exit 2; }
go test -vet=off -count=1 -run "$RUN" "$@" ./$PKG/ > "$W/mut.txt" 2>&1; m=$?
echo "original: exit $o ($(tail -1 $W/orig.txt | cut -c1-100))"
echo "mutated : exit $m ($(grep -m1 -E -- '--- FAIL|panic|DATA RACE|FAIL' $W/mut.txt | cut -c1-160))"
[ $o = 0 ] && [ $m != 0 ] && echo CONFIRMED || echo NOT-CONFIRMED
