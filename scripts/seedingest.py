#!/usr/bin/env python3
# usage: seedingest.py <out id (e.g. C05b)> <seed id (e.g. C05-s2)> <checks...>
# copies an agent's deliverables from /tmp/seedwork/out/<out id> into /verif/seeded/<seed id> and derives confirm.txt
import json,re,shutil,sys,os
src='/tmp/seedwork/out/'+sys.argv[1]; dst='/verif/seeded/'+sys.argv[2]
os.makedirs(dst,exist_ok=True)
for f in ['patch.diff','demo_test.go','meta.json']: shutil.copy(src+'/'+f,dst+'/'+f)
m=json.load(open(dst+'/meta.json')); cmd=m.get('demo_cmd','')
head=open(dst+'/demo_test.go').read()[:1500]
run=re.search(r"-run[ =]'?\"?([A-Za-z0-9_^$|]+)",cmd) or re.search(r"-run[ =]'?\"?([A-Za-z0-9_^$|]+)",head)
pkg=None
for pat in [r"\./((?:vfs|idm)/[a-z]+)/?",r"cd [^ ]*?/((?:vfs|idm)/[a-z]+)\b",r"((?:vfs|idm)/[a-z]+)/[a-z0-9_]+_test\.go"]:
    mm=re.search(pat,cmd) or re.search(pat,head)
    if mm: pkg=mm.group(1); break
if pkg is None: pkg='.'
flags=[]
if '-race' in cmd or '-race' in head: flags.append('-race')
if 'avfs_setostype' in cmd or 'avfs_setostype' in head: flags+=['-tags','avfs_setostype']
open(dst+'/confirm.txt','w').write(' '.join([pkg,run.group(1) if run else 'Test']+flags)+'\n')
open(dst+'/checks.txt','w').write(' '.join(sys.argv[3:])+'\n')
print(dst, open(dst+'/confirm.txt').read().strip(), '|', m.get('files_changed'))
