#!/bin/bash
# Re-confirms every stored seeded change and runs the checks listed in its checks.txt against it (quick tier).
# usage: seedsweep.sh [id...]
cd /verif
ids=${@:-$(ls seeded | grep -- '-s')}
for id in $ids; do
  d=seeded/$id
  [ -f $d/patch.diff ] || continue
  echo "=== $id"
  if [ -f $d/NEUTRALISED.txt ]; then echo NEUTRALISED; else scripts/seedconfirm.sh $d $(cat $d/confirm.txt) | tail -1; fi
  SHOW=1 scripts/seedtest.sh $d/patch.diff quick $(cat $d/checks.txt) 2>&1 | tee $d/result-quick.txt | grep -E "^\[" 
done
