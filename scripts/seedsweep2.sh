#!/bin/bash
# Faster full sweep: the confirmations (scratch clones of /repo's HEAD, independent of the working tree) run eight at a
# time in the background while the checks run serially against each change applied to /repo (seedtest.sh).
# usage: seedsweep2.sh [id...]   -> one line per seed: confirmation + verdict of every check listed in checks.txt
cd /verif
ids=${@:-$(ls seeded | grep -- '-s')}
(
  for id in $ids; do
    d=seeded/$id
    [ -f $d/patch.diff ] || continue
    if [ -f $d/NEUTRALISED.txt ]; then echo NEUTRALISED > /dev/shm/seedconfirm-$id.txt; continue; fi
    echo $id
  done | xargs -P 8 -I{} sh -c 'scripts/seedconfirm.sh seeded/{} $(cat seeded/{}/confirm.txt) 2>&1 | tail -1 > /dev/shm/seedconfirm-{}.txt'
) &
for id in $ids; do
  d=seeded/$id
  [ -f $d/patch.diff ] || continue
  echo "=== $id"
  SHOW=1 scripts/seedtest.sh $d/patch.diff quick $(cat $d/checks.txt) 2>&1 | tee $d/result-quick.txt | grep -E "^\["
done
wait
for id in $ids; do [ -f /dev/shm/seedconfirm-$id.txt ] && echo "confirm $id $(cat /dev/shm/seedconfirm-$id.txt)"; done
rm -f /dev/shm/seedconfirm-*.txt
