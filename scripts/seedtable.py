#!/usr/bin/env python3
# Regenerates the table of §8 of DESIGN.md from seeded/*/meta.json and seeded/*/result-quick.txt.
import json,os,re,glob
missed={'C04-s1','C05-s1','C07-s1','C10-s1','C13-s1','C09-s2','C10-s2','C14-s2','C04-s3','C07-s3','C12-s3','C16-s3','C17-s3','C03-s4','C07-s4','C09-s4','C11-s4','C14-s4','C03-s5','C05-s5','C07-s5','C10-s5','C11-s5','C13-s5','C16-s5','C17-s5',
 'C02-s6','C03-s6','C04-s6','C05-s6','C06-s6','C07-s6','C09-s6','C10-s6','C11-s6','C12-s6','C14-s6','C15-s6','C16-s6','C17-s6',
 'C02-s7','C04-s7','C05-s7','C06-s7','C07-s7','C09-s7','C10-s7','C11-s7','C12-s7','C13-s7','C14-s7','C15-s7',
 'C01-s8','C02-s8','C03-s8','C04-s8','C05-s8','C06-s8','C07-s8','C08-s8','C10-s8','C12-s8','C13-s8','C15-s8','C16-s8','C17-s8',
 'C01-s9','C03-s9','C05-s9','C08-s9','C10-s9','C12-s9','C14-s9','C07-s9','C09-s9','C11-s9','C16-s9'}
def short(t,n):
    t=' '.join(t.split())
    t=re.sub(r'/tmp/wt/C\d\d[a-z]?/','',t)
    t=re.sub(r'\((vfs|idm)/[a-z/_.]+\)','',t)
    if len(t)<=n: return t
    cut=t[:n]
    return cut[:cut.rfind(' ')]+' …'
rows=[]
for d in sorted(glob.glob('/verif/seeded/C*-s*')):
    sid=os.path.basename(d)
    m=json.load(open(d+'/meta.json'))
    res=open(d+'/result-quick.txt').read()
    caught=[];held=[]
    for l in res.split('\n'):
        mm=re.match(r'\[(C\d\d) quick\] (VIOLATED|HELD-ON-OBSERVED)',l)
        if mm: (caught if mm.group(2)=='VIOLATED' else held).append(mm.group(1))
    files=', '.join(os.path.basename(f) for f in m.get('files_changed',[]))
    c=', '.join(caught)+(' *(after strengthening)*' if sid in missed else '')
    if held: c+='; silent: '+', '.join(held)
    if os.path.exists(d+'/NEUTRALISED.txt'): c='— no longer breaks the property since a later repair of /repo made the deleted re-validation redundant (caught by C06 until then)'
    rows.append('| %s | `%s` | %s | %s | %s |'%(sid,files,short(m.get('summary',''),170).replace('|','/'),short(m.get('needs',''),120).replace('|','/'),c))
table='| seed | file | change | needs | caught at quick by |\n|------|------|--------|-------|--------------------|\n'+'\n'.join(rows)+'\n'
p='/verif/DESIGN.md'
s=open(p).read()
i=s.index('| seed | file | change | needs | caught at quick by |')
j=s.index('\n**Misses and what was done.**')
s=s[:i]+table+s[j:]
open(p,'w').write(s)
print(len(rows),'rows')
