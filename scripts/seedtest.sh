#!/bin/bash
# usage: seedtest.sh <patch.diff> <tier> <prop>... : applies a seeded change to /repo, runs the given checks, ALWAYS reverts.
# BASE=1 also runs the repository's baseline with the change applied.
set -u
P=$(realpath $1); T=$2; shift 2
cd /verif; export VERIF_EVIDENCE_DIR=/dev/shm/verif-seed-evidence
if ! git -C /repo diff --quiet; then echo "seedtest: /repo is dirty, refusing"; exit 2; fi
trap 'git -C /repo checkout -- . ; git -C /repo clean -fdq' EXIT
git -C /repo apply "$P" || { echo "seedtest: patch does not apply"; exit 2; }
if [ "${BASE:-0}" = 1 ]; then scripts/baseline_off.sh | tail -3; fi
for c in "$@"; do
  out=$(./check $c $T 2>&1)
  echo "$out" | grep -E "^(VIOLATED|HELD-ON-OBSERVED|INCONCLUSIVE|CHECK-ERROR)" | sed "s/^/[$c $T] /"
  echo "$out" | grep -A2 "^VIOLATION" | grep -E "what:|sig:" | head -${SHOW:-4} | cut -c1-400
done
