#!/usr/bin/env python3
# triage helper: list violation signatures of a property from /verif/replays
import json,glob,sys
prop=sys.argv[1]
sigs=[]
for f in glob.glob('/verif/replays/%s-*.json'%prop):
    d=json.load(open(f)); r=d['replay'] if isinstance(d['replay'],dict) else {}
    sigs.append((d['signature'],d['what'],r.get('history_text')))
sigs.sort()
for s,w,h in sigs: print(s,'\n     ',w[:260],'\n     ',h)
print(len(sigs),'signatures')
