#!/usr/bin/env python3
# condensed triage view: collapse open-flag sets and count
import json,glob,sys,re,collections
prop=sys.argv[1]; filt=sys.argv[2] if len(sys.argv)>2 else ''
c=collections.OrderedDict()
for f in sorted(glob.glob('/verif/replays/%s-*.json'%prop)):
    d=json.load(open(f)); s=d['signature']
    if filt and filt not in s: continue
    k=re.sub(r'\[(RDONLY|WRONLY|RDWR)[^\]]*\]','[F]',s)
    c.setdefault(k,[]).append(d)
for k in sorted(c):
    d=c[k][0]; r=d['replay'] if isinstance(d['replay'],dict) else {}
    print('%3d %s\n       %s'%(len(c[k]),k,(r.get('history_text') or d['what'])))
print(len(c),'collapsed signatures')
