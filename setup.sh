#!/bin/bash
# Run once after a fresh restore, offline: builds the harness binaries from files on disk only.
set -eu
cd "$(dirname "$0")"
export GOFLAGS=-mod=mod GOPROXY=off GOSUMDB=off GOTOOLCHAIN=local
mkdir -p .build evidence replays
python3 scripts/gen_winpath.py
( cd harness && gofmt -w internal/winpath/winpath_gen.go && go test ./internal/winpath && go vet -tags verif ./... )
( cd harness && go build -tags verif -o ../.build/vcheck ./cmd/vcheck )
( cd harness && go build -tags verif,avfs_setostype -o ../.build/vcheck-os ./cmd/vcheck )
( cd harness && go build -race -tags verif -o ../.build/vcheck-race ./cmd/vcheck )
python3 scripts/lint_hooks.py
echo "setup ok"
